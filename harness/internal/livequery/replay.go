package livequery

// replay.go: forward replay (F) of the behaviours printed by spec/livequery/LiveQueryGen.tla.
//
// Input: first line {"flows":[...]} (the flow universe printed by the specification), then one
// behaviour per line: [{act, exp}, ...].  Every behaviour is executed twice on a fresh world:
//   main run  all steps
//   twin run  the LiveQuery steps left out
// After every step of both runs the in-memory flows (read from the captures' flow logs) and,
// after Writeout steps and at the end, the database contents (read back with an ordinary query
// over time,sip,dip,dport,proto) are compared with exp; after a LiveQuery step the rows returned
// by the live query, by the same query without the live flag and their difference are compared
// with exp.res.total / stored / memory.
//
// The harness only establishes facts and classifies the *kind* of a mismatch; expected values come
// from the specification.

import (
	"context"
	"encoding/binary"
	"encoding/json"
	"flag"
	"fmt"
	"io"
	"log/slog"
	"net/netip"
	"os"
	"sort"
	"strconv"
	"strings"
	"sync"

	"verifharness/internal/hx"

	"github.com/els0r/goProbe/v4/pkg/goDB"
	"github.com/els0r/goProbe/v4/pkg/goDB/conditions/node"
	"github.com/els0r/goProbe/v4/pkg/goDB/engine"
	"github.com/els0r/goProbe/v4/pkg/query"
	"github.com/els0r/goProbe/v4/pkg/results"
	"github.com/els0r/goProbe/v4/pkg/types"
	"github.com/els0r/goProbe/v4/pkg/types/hashmap"
	"github.com/els0r/telemetry/logging"
	slimcap "github.com/fako1024/slimcap/capture"
)

// ---------------------------------------------------------------- interchange types

// Tree is a condition tree as printed by TLC (Cond.tla: At / Not / And / Or, or {"k":"none"}).
type Tree struct {
	K    string `json:"k"`
	Attr string `json:"attr,omitempty"`
	Cmp  string `json:"cmp,omitempty"`
	B    []int  `json:"b,omitempty"`
	N    int    `json:"n,omitempty"`
	Sym  string `json:"sym,omitempty"`
	X    *Tree  `json:"x,omitempty"`
	L    *Tree  `json:"l,omitempty"`
	R    *Tree  `json:"r,omitempty"`
}

// Flow is a flow record of Flows.tla.
type Flow struct {
	ID    int   `json:"id"`
	Fam   int   `json:"fam"`
	SIP   []int `json:"sip"`
	DIP   []int `json:"dip"`
	Dport int   `json:"dport"`
	Proto int   `json:"proto"`
}

type qry struct {
	Ifs   []string `json:"ifs"`
	Attrs []string `json:"attrs"`
	Cond  *Tree    `json:"cond"`
}

type action struct {
	Name string `json:"name"`
	I    string `json:"i,omitempty"`
	C    int    `json:"c,omitempty"`
	V    int    `json:"v,omitempty"`
	D    string `json:"d,omitempty"`
	Sz   int    `json:"sz,omitempty"`
	K    string `json:"k,omitempty"` // "open": carries its orientation; "cont": TCP segment without SYN
	Q    *qry   `json:"q,omitempty"`
}

type cnt [4]int64

type flowRow struct {
	F int `json:"f"`
	C cnt `json:"c"`
}

type rowKey struct {
	Iface string `json:"iface"`
	SIP   []int  `json:"sip"`
	DIP   []int  `json:"dip"`
	Dport int    `json:"dport"`
	Proto int    `json:"proto"`
}

type resRow struct {
	K rowKey `json:"k"`
	C cnt    `json:"c"`
}

type expRes struct {
	Has    bool     `json:"has"`
	Stored []resRow `json:"stored"`
	Memory []resRow `json:"memory"`
	Total  []resRow `json:"total"`
}

type expObs struct {
	Mem  map[string][]flowRow  `json:"mem"`
	Idle map[string][]int      `json:"idle"` // flows remembered without traffic

	DB  map[string][][]flowRow `json:"db"`
	Res expRes                 `json:"res"`
}

type step struct {
	Act action `json:"act"`
	Exp expObs `json:"exp"`
}

// ---------------------------------------------------------------- concretisation

func toBytes(v []int) []byte {
	b := make([]byte, len(v))
	for i, x := range v {
		b[i] = byte(x)
	}
	return b
}

func ipString(b []int) string {
	a, ok := netip.AddrFromSlice(toBytes(b))
	if !ok {
		return fmt.Sprintf("?%v", b)
	}
	return a.String()
}

// universe is the specification's flow universe with the real keys of its flows.
type universe struct {
	flows []Flow
	byKey map[string]int // aggregated key bytes (types.Key) -> flow id
	addrs map[string]bool
}

func (f Flow) key() types.Key {
	dport := []byte{byte(f.Dport >> 8), byte(f.Dport)}
	if f.Fam == 4 {
		return types.NewV4Key(toBytes(f.SIP), toBytes(f.DIP), dport, byte(f.Proto))
	}
	return types.NewV6Key(toBytes(f.SIP), toBytes(f.DIP), dport, byte(f.Proto))
}

func newUniverse(flows []Flow) *universe {
	u := &universe{flows: flows, byKey: map[string]int{}, addrs: map[string]bool{}}
	for _, f := range flows {
		u.byKey[string(f.key())] = f.ID
		u.addrs[ipString(f.SIP)] = true
		u.addrs[ipString(f.DIP)] = true
	}
	return u
}

func (u *universe) flow(id int) (Flow, bool) {
	if id < 1 || id > len(u.flows) || u.flows[id-1].ID != id {
		return Flow{}, false
	}
	return u.flows[id-1], true
}

const (
	protoICMP   = 1
	protoTCP    = 6
	protoUDP    = 17
	protoICMPv6 = 58
)

// buildPacket assembles the IP layer of one packet of flow f from source port variant v: a TCP SYN,
// a UDP datagram from an ephemeral port, an ICMP echo request or a bare packet of another
// protocol - shapes whose orientation the capture keeps as sent (properties C19/C22 own that rule).
//
// kind "cont" (TCP only) is a later segment of the conversation: ACK without SYN, nothing in the
// packet tells which side opened the connection.
func buildPacket(f Flow, v int, kind string) []byte {
	hdr := 40
	if f.Fam == 4 {
		hdr = 20
	}
	b := make([]byte, hdr+24)
	if f.Fam == 4 {
		b[0] = 0x45
		binary.BigEndian.PutUint16(b[2:4], uint16(len(b)))
		b[8] = 64
		b[9] = byte(f.Proto)
		copy(b[12:16], toBytes(f.SIP))
		copy(b[16:20], toBytes(f.DIP))
	} else {
		b[0] = 0x60
		binary.BigEndian.PutUint16(b[4:6], 24)
		b[6] = byte(f.Proto)
		b[7] = 64
		copy(b[8:24], toBytes(f.SIP))
		copy(b[24:40], toBytes(f.DIP))
	}
	t := b[hdr:]
	switch {
	case f.Proto == protoTCP:
		binary.BigEndian.PutUint16(t[0:2], uint16(40000+v))
		binary.BigEndian.PutUint16(t[2:4], uint16(f.Dport))
		t[12] = 0x50
		t[13] = 0x02 // SYN
		if kind == "cont" {
			t[13] = 0x10 // ACK
		}
	case f.Proto == protoUDP:
		binary.BigEndian.PutUint16(t[0:2], uint16(40000+v))
		binary.BigEndian.PutUint16(t[2:4], uint16(f.Dport))
	case f.Fam == 4 && f.Proto == protoICMP:
		t[0] = 8 // echo request
	case f.Fam == 6 && f.Proto == protoICMPv6:
		t[0] = 0x80 // echo request
	}
	return b
}

// ---------------------------------------------------------------- conditions as text

func atomText(t *Tree) string {
	var val string
	switch t.Attr {
	case "sip", "dip", "src", "dst", "host":
		val = ipString(t.B)
	case "snet", "dnet", "net":
		val = ipString(t.B) + "/" + strconv.Itoa(t.N)
	default:
		if t.Sym != "" {
			val = t.Sym
		} else {
			val = strconv.Itoa(t.N)
		}
	}
	return t.Attr + " " + t.Cmp + " " + val
}

// render renders a tree in the base grammar, every compound operand parenthesised.
func render(t *Tree) string {
	if t == nil {
		return ""
	}
	switch t.K {
	case "none":
		return ""
	case "atom":
		return atomText(t)
	case "not":
		return "!(" + render(t.X) + ")"
	case "and":
		return "(" + render(t.L) + " & " + render(t.R) + ")"
	case "or":
		return "(" + render(t.L) + " | " + render(t.R) + ")"
	}
	hx.Die("livequery: unknown node kind %q", t.K)
	return ""
}

// condKind is the abstract class of a condition used in violation descriptors.
func condKind(t *Tree) string {
	if t == nil || t.K == "none" {
		return "none"
	}
	unaligned, net := false, false
	var walk func(x *Tree)
	walk = func(x *Tree) {
		if x == nil {
			return
		}
		if x.K == "atom" {
			if x.Attr == "snet" || x.Attr == "dnet" || x.Attr == "net" {
				net = true
				if x.N%8 != 0 {
					unaligned = true
				}
			}
			return
		}
		walk(x.X)
		walk(x.L)
		walk(x.R)
	}
	walk(t)
	switch {
	case unaligned:
		return "unaligned-net"
	case net:
		return "aligned-net"
	}
	return "no-net"
}

var attrOrder = []string{"sip", "dip", "dport", "proto"}

func (q *qry) has(a string) bool {
	for _, x := range q.Attrs {
		if x == a {
			return true
		}
	}
	return false
}

func (q *qry) attrString() string {
	var s []string
	for _, a := range attrOrder {
		if q.has(a) {
			s = append(s, a)
		}
	}
	return strings.Join(s, ",")
}

func (q *qry) attrClass() string {
	if len(q.Attrs) == 4 {
		return "all"
	}
	return "subset"
}

// ---------------------------------------------------------------- observing the real system

type rowMap map[string]cnt

func addCnt(a, b cnt) cnt { return cnt{a[0] + b[0], a[1] + b[1], a[2] + b[2], a[3] + b[3]} }
func subCnt(a, b cnt) cnt { return cnt{a[0] - b[0], a[1] - b[1], a[2] - b[2], a[3] - b[3]} }

func ofCounters(c types.Counters) cnt {
	return cnt{int64(c.BytesRcvd), int64(c.BytesSent), int64(c.PacketsRcvd), int64(c.PacketsSent)}
}

// memory reads the aggregated in-memory flows of one interface from the capture's flow log
// (source port dropped, entries without traffic ignored): flow id -> counters.
//
// idle are the flows the log remembers without traffic (entries with zero counters only).
func (w *world) memory(u *universe, iface string) (res map[int]cnt, idle map[int]bool, err error) {
	fl, err := w.flowLog(iface)
	if err != nil {
		return nil, nil, err
	}
	res, idle = map[int]cnt{}, map[int]bool{}
	defer func() {
		for id := range res {
			delete(idle, id)
		}
	}()
	add := func(k types.Key, c cnt) error {
		id, ok := u.byKey[string(k)]
		if !ok {
			return fmt.Errorf("flow log of %s holds a key outside the universe: %s", iface, k.String())
		}
		if c[2] == 0 && c[3] == 0 {
			idle[id] = true
			return nil
		}
		res[id] = addCnt(res[id], c)
		return nil
	}
	k4, k6 := types.NewEmptyV4Key(), types.NewEmptyV6Key()
	for k, f := range fl.FlowsV4() {
		k4.PutV4String(k)
		if err := add(k4, ofCounters(types.Counters(*f))); err != nil {
			return nil, nil, err
		}
	}
	for k, f := range fl.FlowsV6() {
		k6.PutV6String(k)
		if err := add(k6, ofCounters(types.Counters(*f))); err != nil {
			return nil, nil, err
		}
	}
	return res, idle, nil
}

func (w *world) args(q string, ifaces string, cond string, live bool) *query.Args {
	return &query.Args{Query: q, Ifaces: ifaces, Condition: cond, First: strconv.FormatInt(T0-86400, 10),
		Last: strconv.FormatInt(types.MaxTime.Unix(), 10), Format: "json", NumResults: 100000000, MaxMemPct: 90,
		SortBy: "packets", Live: live}
}

// database reads all blocks back: interface -> block index (1-based) -> flow id -> counters.
func (w *world) database(u *universe) (map[string]map[int]map[int]cnt, error) {
	res, err := engine.NewQueryRunner(w.db).Run(context.Background(), w.args("time,sip,dip,dport,proto", strings.Join(w.ifaces, ","), "", false))
	if err != nil {
		return nil, fmt.Errorf("reading the database back: %v", err)
	}
	if n := res.Summary.Stats.BlocksCorrupted; n > 0 {
		return nil, fmt.Errorf("reading the database back: %d corrupted blocks", n)
	}
	all := map[string]map[int]map[int]cnt{}
	for _, r := range res.Rows {
		iface := r.Labels.Iface
		if all[iface] == nil {
			all[iface] = map[int]map[int]cnt{}
		}
		out := all[iface]
		ts := r.Labels.Timestamp.Unix()
		if ts < T0 || (ts-T0)%300 != 0 {
			return nil, fmt.Errorf("database of %s holds a block at unexpected time %d", iface, ts)
		}
		k := int((ts-T0)/300) + 1
		var key types.Key
		dport := []byte{byte(r.Attributes.DstPort >> 8), byte(r.Attributes.DstPort)}
		if r.Attributes.SrcIP.Is4() {
			key = types.NewV4Key(r.Attributes.SrcIP.AsSlice(), r.Attributes.DstIP.AsSlice(), dport, r.Attributes.IPProto)
		} else {
			key = types.NewV6Key(r.Attributes.SrcIP.AsSlice(), r.Attributes.DstIP.AsSlice(), dport, r.Attributes.IPProto)
		}
		id, ok := u.byKey[string(key)]
		if !ok {
			return nil, fmt.Errorf("database of %s block %d holds a key outside the universe: %s", iface, k, key.String())
		}
		if out[k] == nil {
			out[k] = map[int]cnt{}
		}
		out[k][id] = addCnt(out[k][id], ofCounters(r.Counters))
	}
	return all, nil
}

func keyString(iface, sip, dip, dport, proto string) string {
	return iface + "|" + sip + "|" + dip + "|" + dport + "|" + proto
}

func (q *qry) expKey(k rowKey) string {
	sip, dip, dport, proto := "-", "-", "-", "-"
	if q.has("sip") {
		sip = ipString(k.SIP)
	}
	if q.has("dip") {
		dip = ipString(k.DIP)
	}
	if q.has("dport") {
		dport = strconv.Itoa(k.Dport)
	}
	if q.has("proto") {
		proto = strconv.Itoa(k.Proto)
	}
	return keyString(k.Iface, sip, dip, dport, proto)
}

func (q *qry) realKey(r results.Row) string {
	sip, dip, dport, proto := "-", "-", "-", "-"
	if q.has("sip") {
		sip = r.Attributes.SrcIP.String()
	}
	if q.has("dip") {
		dip = r.Attributes.DstIP.String()
	}
	if q.has("dport") {
		dport = strconv.Itoa(int(r.Attributes.DstPort))
	}
	if q.has("proto") {
		proto = strconv.Itoa(int(r.Attributes.IPProto))
	}
	return keyString(r.Labels.Iface, sip, dip, dport, proto)
}

// preflight performs the in-memory part of a live query the way engine.QueryRunner.runLiveQuery
// does (Manager.GetFlowMaps with goDB.QueryFilter of the prepared query), but on the harness'
// goroutine: the engine runs it on a goroutine of its own, where a panic of the code under test
// would take the whole harness down instead of being attributed to this step.
func (w *world) preflight(q *qry) (panicked string) {
	ifs := append([]string{}, q.Ifs...)
	sort.Strings(ifs)
	stmt, err := w.args(q.attrString(), strings.Join(ifs, ","), render(q.Cond), true).Prepare(io.Discard)
	if err != nil {
		return "" // the engine reports it
	}
	attrs, _, err := types.ParseQueryType(stmt.QueryType)
	if err != nil {
		return ""
	}
	var gq *goDB.Query
	if p := hx.Catch(func() {
		cond, _, perr := node.ParseAndInstrument(stmt.Condition, stmt.DNSResolution.Timeout)
		if perr == nil {
			gq = goDB.NewQuery(attrs, cond, stmt.LabelSelector)
		}
	}); p != "" {
		return p
	}
	if gq == nil {
		return ""
	}
	ch := make(chan hashmap.AggFlowMapWithMetadata, 64)
	return hx.Catch(func() { w.mgr.GetFlowMaps(context.Background(), goDB.QueryFilter(gq), ch, ifs...) })
}

// runQuery runs q through the real engine (live or not) and returns the rows grouped by key plus
// the number of rows that shared their key with an earlier row.
func (w *world) runQuery(q *qry, live bool) (rows rowMap, dups int, err error) {
	ifs := append([]string{}, q.Ifs...)
	sort.Strings(ifs)
	var res *results.Result
	p := hx.Catch(func() {
		res, err = engine.NewQueryRunner(w.db, engine.WithLiveData(w.mgr)).Run(context.Background(),
			w.args(q.attrString(), strings.Join(ifs, ","), render(q.Cond), live))
	})
	if p != "" {
		return nil, 0, fmt.Errorf("%s", p)
	}
	if err != nil {
		return nil, 0, err
	}
	rows = rowMap{}
	for _, r := range res.Rows {
		k := q.realKey(r)
		if _, seen := rows[k]; seen {
			dups++
		}
		rows[k] = addCnt(rows[k], ofCounters(r.Counters))
	}
	return rows, dups, nil
}

func (q *qry) expRows(rs []resRow) rowMap {
	m := rowMap{}
	for _, r := range rs {
		m[q.expKey(r.K)] = addCnt(m[q.expKey(r.K)], r.C)
	}
	return m
}

// diffRows describes how got differs from exp: "" if equal, else the kind of the first class of
// difference found (missing, extra, foreign-key, counters) and a message.
func diffRows(u *universe, exp, got rowMap) (kind, msg string) {
	var missing, extra, foreign, counters []string
	for k, e := range exp {
		g, ok := got[k]
		if !ok {
			missing = append(missing, k)
		} else if g != e {
			counters = append(counters, fmt.Sprintf("%s: got %v, specification %v", k, g, e))
		}
	}
	for k := range got {
		if _, ok := exp[k]; !ok {
			parts := strings.Split(k, "|")
			isForeign := false
			for _, a := range parts[1:3] {
				if a != "-" && !u.addrs[a] {
					isForeign = true
				}
			}
			if isForeign {
				foreign = append(foreign, k)
			} else {
				extra = append(extra, k)
			}
		}
	}
	sort.Strings(missing)
	sort.Strings(extra)
	sort.Strings(foreign)
	sort.Strings(counters)
	switch {
	case len(foreign) > 0:
		return "foreign-key", fmt.Sprintf("rows with addresses no flow has: %v; rows missing: %v", head(foreign), head(missing))
	case len(missing) > 0 && len(extra) > 0:
		return "missing+extra", fmt.Sprintf("rows missing: %v; rows the specification does not have: %v", head(missing), head(extra))
	case len(missing) > 0:
		return "missing", fmt.Sprintf("rows missing: %v", head(missing))
	case len(extra) > 0:
		return "extra", fmt.Sprintf("rows the specification does not have: %v", head(extra))
	case len(counters) > 0:
		return "counters", fmt.Sprintf("counters differ: %v", head(counters))
	}
	return "", ""
}

func head(s []string) []string {
	if len(s) > 4 {
		return append(append([]string{}, s[:4]...), fmt.Sprintf("... (%d)", len(s)))
	}
	return s
}

// ---------------------------------------------------------------- comparing state with exp

func expMem(rows []flowRow) map[int]cnt {
	m := map[int]cnt{}
	for _, r := range rows {
		m[r.F] = r.C
	}
	return m
}

func sameMem(a, b map[int]cnt) bool {
	if len(a) != len(b) {
		return false
	}
	for k, v := range a {
		if w, ok := b[k]; !ok || w != v {
			return false
		}
	}
	return true
}

// checkMem compares the in-memory flows of all interfaces with exp.
// idleMsg reports a difference in the conversations remembered without traffic: not a difference the
// property talks about by itself (it shows in what is written only if the conversation continues).
func (w *world) checkMem(u *universe, exp map[string][]flowRow, expIdle map[string][]int) (msg, idleMsg string) {
	for _, i := range w.ifaces {
		got, idle, err := w.memory(u, i)
		if err != nil {
			return err.Error(), ""
		}
		if e := expMem(exp[i]); !sameMem(e, got) {
			return fmt.Sprintf("in-memory flows of %s: %v, specification %v", i, got, e), ""
		}
		if expIdle == nil || idleMsg != "" {
			continue
		}
		want := map[int]bool{}
		for _, id := range expIdle[i] {
			want[id] = true
		}
		same := len(want) == len(idle)
		for id := range want {
			same = same && idle[id]
		}
		if !same {
			idleMsg = fmt.Sprintf("conversations of %s remembered without traffic: %v, specification %v", i, keysOf(idle), keysOf(want))
		}
	}
	return "", idleMsg
}

func keysOf(m map[int]bool) []int {
	out := []int{}
	for k := range m {
		out = append(out, k)
	}
	sort.Ints(out)
	return out
}

// checkDB compares the database blocks of all interfaces with exp (blocks without rows are not
// distinguished from absent blocks).
func (w *world) checkDB(u *universe, exp map[string][][]flowRow) string {
	all, err := w.database(u)
	if err != nil {
		return err.Error()
	}
	for _, i := range w.ifaces {
		got := all[i]
		n := 0
		for k, rows := range exp[i] {
			e := expMem(rows)
			if len(e) == 0 {
				continue
			}
			n++
			if !sameMem(e, got[k+1]) {
				return fmt.Sprintf("database of %s block %d: %v, specification %v", i, k+1, got[k+1], e)
			}
		}
		if len(got) != n {
			return fmt.Sprintf("database of %s has rows in %d blocks, specification in %d: %v", i, len(got), n, got)
		}
	}
	return ""
}

// ---------------------------------------------------------------- executing behaviours

type failure struct {
	Step int            `json:"step"`
	Msg  string         `json:"msg"`
	Desc map[string]any `json:"desc"`
}

type runStats struct {
	steps, packets, writeouts, liveQueries, storedPartDiffers, dbReads int
	storedNotes                                                         []string
}

// execute runs one behaviour; withLive = FALSE is the twin run.  It returns the failures of the
// run: for the state (memory / database) the first one, for live query answers one per step.
// machinery != "" means the behaviour could not be executed at all.
func execute(u *universe, beh []step, withLive bool, st *runStats, corruptStep int) (fails []failure, stateFail *failure, machinery string) {
	var ifaces []string
	if len(beh) > 0 {
		for i := range beh[0].Exp.Mem {
			ifaces = append(ifaces, i)
		}
	}
	sort.Strings(ifaces)
	w, err := startWorld(ifaces)
	if err != nil {
		return nil, nil, "cannot start the capture manager: " + err.Error()
	}
	defer w.stop()
	var idleFail *failure
	for i, s := range beh {
		switch s.Act.Name {
		case "Packet":
			f, ok := u.flow(s.Act.C)
			src := w.srcs[s.Act.I]
			if !ok || src == nil {
				return nil, nil, fmt.Sprintf("step %d: unknown flow or interface", i)
			}
			pt := slimcap.PacketType(slimcap.PacketThisHost)
			if s.Act.D == "out" {
				pt = slimcap.PacketOutgoing
			}
			if err := src.send(srcPkt{ip: buildPacket(f, s.Act.V, s.Act.K), pktType: pt, size: uint32(s.Act.Sz)}); err != nil {
				return nil, nil, fmt.Sprintf("step %d: %v", i, err)
			}
			st.packets++
		case "Writeout":
			if err := w.writeout(); err != nil {
				return nil, nil, fmt.Sprintf("step %d: %v", i, err)
			}
			st.writeouts++
		case "LiveQuery":
			if !withLive {
				continue
			}
			q := s.Act.Q
			st.liveQueries++
			if p := w.preflight(q); p != "" {
				if len(p) > 1500 {
					p = p[:1500]
				}
				fails = append(fails, failure{i, fmt.Sprintf("live query %q [%s] on %v: filtering the in-memory flows panics: %s", render(q.Cond), q.attrString(), q.Ifs, p),
					map[string]any{"cls": "live-query-panics", "attrs": q.attrClass(), "cond": condKind(q.Cond)}})
				break
			}
			total, dups, lerr := w.runQuery(q, true)
			stored, _, serr := w.runQuery(q, false)
			desc := map[string]any{"attrs": q.attrClass(), "cond": condKind(q.Cond)}
			if lerr != nil || serr != nil {
				desc["cls"] = "live-query-fails"
				fails = append(fails, failure{i, fmt.Sprintf("live query %q [%s] failed: live %v / stored %v", render(q.Cond), q.attrString(), lerr, serr), desc})
				break
			}
			expTotal, expStored, expMemory := q.expRows(s.Exp.Res.Total), q.expRows(s.Exp.Res.Stored), q.expRows(s.Exp.Res.Memory)
			if i == corruptStep { // negative control: one expected counter changed
				for k, v := range expMemory {
					v[2]++
					expMemory[k] = v
					break
				}
				if len(expMemory) == 0 {
					expMemory["lq0|-|-|-|-"] = cnt{1, 0, 1, 0}
				}
			}
			storedDiffers := false
			if kind, msg := diffRows(u, expStored, stored); kind != "" {
				// the stored part is the ordinary query (properties C08/C09 own it); the live part is
				// judged relative to what the ordinary query really returns
				storedDiffers = true
				st.storedPartDiffers++
				if len(st.storedNotes) < 3 {
					st.storedNotes = append(st.storedNotes, fmt.Sprintf("ordinary query %q [%s]: %s", render(q.Cond), q.attrString(), msg))
				}
			}
			delta := rowMap{}
			for k, v := range total {
				if d := subCnt(v, stored[k]); d != (cnt{}) {
					delta[k] = d
				}
			}
			for k, v := range stored {
				if _, ok := total[k]; !ok {
					delta[k] = subCnt(cnt{}, v)
				}
			}
			if kind, msg := diffRows(u, expMemory, delta); kind != "" {
				desc["cls"], desc["kind"] = "live-rows-differ", kind
				fails = append(fails, failure{i, fmt.Sprintf("live query %q [%s] on %v: in-memory part of the answer (live answer minus stored answer): %s",
					render(q.Cond), q.attrString(), q.Ifs, msg), desc})
				break
			}
			if kind, msg := diffRows(u, expTotal, total); kind != "" && !storedDiffers {
				desc["cls"], desc["kind"] = "live-total-differs", kind
				fails = append(fails, failure{i, fmt.Sprintf("live query %q [%s]: %s", render(q.Cond), q.attrString(), msg), desc})
				break
			}
			if dups > 0 {
				desc["cls"] = "live-rows-not-grouped"
				fails = append(fails, failure{i, fmt.Sprintf("live query %q [%s] on %v returned %d rows that repeat the key of another row (the counters add up to the specification's rows)",
					render(q.Cond), q.attrString(), q.Ifs, dups), desc})
			}
		default:
			return nil, nil, fmt.Sprintf("step %d: unknown action %q", i, s.Act.Name)
		}
		st.steps++
		if stateFail != nil {
			continue
		}
		msg, idleMsg := w.checkMem(u, s.Exp.Mem, s.Exp.Idle)
		if idleMsg != "" && idleFail == nil {
			idleFail = &failure{i, idleMsg, map[string]any{"what": "idle-entries", "after": s.Act.Name}}
		}
		if msg != "" {
			if idleFail != nil {
				msg += fmt.Sprintf(" (first difference, after the %s of step %d: %s)", idleFail.Desc["after"], idleFail.Step, idleFail.Msg)
			}
			stateFail = &failure{i, msg, map[string]any{"what": "memory", "after": s.Act.Name}}
			continue
		}
		// the database is append-only by block time: the twin run is read back once, at the end
		if (withLive && s.Act.Name == "Writeout") || i == len(beh)-1 {
			st.dbReads++
			if msg := w.checkDB(u, s.Exp.DB); msg != "" {
				stateFail = &failure{i, msg, map[string]any{"what": "database", "after": s.Act.Name}}
			}
		}
	}
	if stateFail == nil {
		stateFail = idleFail
	}
	return fails, stateFail, ""
}

// reduce keeps what is needed to reproduce a failure at step i: every step that changes state
// before it and the step itself (a LiveQuery step changes nothing in the specification).
func reduce(beh []step, i int) []step {
	var out []step
	for j := 0; j < i && j < len(beh); j++ {
		if beh[j].Act.Name != "LiveQuery" {
			out = append(out, beh[j])
		}
	}
	if i < len(beh) {
		out = append(out, beh[i])
	}
	return out
}

// Replay executes behaviours; negative = corrupt one expected value per behaviour (negative control).
// Behaviours are independent of each other (own manager, own database directory) and are executed
// by a pool of workers; the output is in input order.
func Replay(in io.Reader, out io.Writer, negative bool, workers int) {
	_, _ = logging.Init(slog.LevelError+8, logging.EncodingPlain, logging.WithOutput(io.Discard), logging.WithErrorOutput(io.Discard))
	o := hx.NewOut(out)
	defer o.Flush()
	var u *universe
	var behs [][]byte
	err := hx.Lines(in, func(line []byte) error {
		if u == nil {
			var hdr struct {
				Flows []Flow `json:"flows"`
			}
			if err := json.Unmarshal(line, &hdr); err != nil || len(hdr.Flows) == 0 {
				return fmt.Errorf("first line must be the flow universe: %v", err)
			}
			u = newUniverse(hdr.Flows)
			return nil
		}
		behs = append(behs, append([]byte{}, line...))
		return nil
	})
	if err != nil {
		hx.Die("livequery replay: %v", err)
	}
	type outcome struct {
		lines    []map[string]any
		st, twin runStats
		mach     string
	}
	outs := make([]outcome, len(behs))
	one := func(n int) {
		oc := &outs[n]
		var beh []step
		if err := json.Unmarshal(behs[n], &beh); err != nil {
			oc.mach = fmt.Sprintf("behaviour %d: %v", n, err)
			return
		}
		corrupt := -1
		if negative {
			for i, s := range beh {
				if s.Act.Name == "LiveQuery" {
					corrupt = i
				}
			}
		}
		fails, mainState, mach := execute(u, beh, true, &oc.st, corrupt)
		if mach != "" {
			oc.mach = fmt.Sprintf("behaviour %d: %s", n, mach)
			return
		}
		_, twinState, mach := execute(u, beh, false, &oc.twin, -1)
		if mach != "" {
			oc.mach = fmt.Sprintf("behaviour %d (twin run): %s", n, mach)
			return
		}
		emit := func(f failure) {
			f.Desc["binding"] = "F"
			oc.lines = append(oc.lines, map[string]any{"id": n, "ok": false, "step": f.Step, "msg": f.Msg, "desc": f.Desc,
				"behaviour": reduce(beh, f.Step)})
		}
		for _, f := range fails {
			emit(f)
		}
		idleOnly := func(f *failure) bool { return f != nil && f.Desc["what"] == "idle-entries" }
		switch {
		case idleOnly(mainState) && (twinState == nil || idleOnly(twinState)):
			// only the set of conversations remembered without traffic differs and nothing written or
			// reported was affected in this schedule
			oc.lines = append(oc.lines, map[string]any{"id": n, "drift": true, "step": mainState.Step, "msg": mainState.Msg})
		case mainState != nil && (twinState == nil || idleOnly(twinState)):
			// the run with live queries deviates from the specification, the same schedule without
			// them does not: the live queries changed what is in memory / what was written
			mainState.Desc["cls"] = "live-query-changes-" + fmt.Sprint(mainState.Desc["what"])
			emit(*mainState)
		case mainState != nil && twinState != nil:
			// both runs deviate: the capture / write-out path does not follow the model here,
			// independently of live queries (properties C19, C20, C22 own that) - reported as drift
			oc.lines = append(oc.lines, map[string]any{"id": n, "drift": true, "step": twinState.Step, "msg": twinState.Msg, "main": mainState.Msg})
		case mainState == nil && twinState != nil:
			oc.lines = append(oc.lines, map[string]any{"id": n, "drift": true, "step": twinState.Step, "msg": "twin run only: " + twinState.Msg})
		}
	}
	if workers < 1 {
		workers = 1
	}
	jobs := make(chan int)
	var wg sync.WaitGroup
	for k := 0; k < workers; k++ {
		wg.Add(1)
		go func() {
			defer wg.Done()
			for n := range jobs {
				one(n)
			}
		}()
	}
	for n := range behs {
		jobs <- n
	}
	close(jobs)
	wg.Wait()
	var st, twin runStats
	bad := 0
	for n := range outs {
		if outs[n].mach != "" {
			o.Flush()
			hx.Die("livequery replay: %s", outs[n].mach)
		}
		for _, l := range outs[n].lines {
			if l["ok"] == false {
				bad++
			}
			o.Emit(l)
		}
		st.add(outs[n].st)
		twin.add(outs[n].twin)
	}
	o.Emit(map[string]any{"summary": true, "behaviours": len(behs), "steps": st.steps + twin.steps, "packets": st.packets + twin.packets,
		"writeouts": st.writeouts + twin.writeouts, "live_queries": st.liveQueries, "db_reads": st.dbReads + twin.dbReads,
		"stored_part_differs": st.storedPartDiffers, "stored_part_notes": st.storedNotes, "failed": bad})
}

func (a *runStats) add(b runStats) {
	a.steps += b.steps
	a.packets += b.packets
	a.writeouts += b.writeouts
	a.liveQueries += b.liveQueries
	a.storedPartDiffers += b.storedPartDiffers
	a.dbReads += b.dbReads
	if len(a.storedNotes) < 5 {
		a.storedNotes = append(a.storedNotes, b.storedNotes...)
	}
}

func init() {
	hx.Register("lq-replay", func(args []string) {
		fs := flag.NewFlagSet("lq-replay", flag.ExitOnError)
		neg := fs.Bool("negative", false, "corrupt one expected live row per behaviour (negative control)")
		workers := fs.Int("workers", 4, "behaviours executed in parallel")
		fs.Parse(args)
		Replay(os.Stdin, os.Stdout, *neg, *workers)
	})
}
