// Package reconfig binds spec/reconfig/Reconfig.tla (property C27) to capture.Manager.Update.
//
// world.go: one capture.Manager with
//   - scripted capture sources (capture.WithSourceInitFn): the factory records, for every capture it
//     is asked to start, the parameters that capture was created with (Capture.config, read by
//     reflection - the parameters the real source would be opened with)
//   - the host's interface list replaced through the package variable the manager's own tests use
//     for this (capture.hostLinks, reached with go:linkname - no change to /repo is needed; if the
//     variable disappears the harness does not link and the check fails as a machinery error)
//   - a real goDB write-out handler wrapped so that, inside Manager.Update, packets can be delivered
//     in the window between the final write-out of the captures to be stopped and their stop
//   - a database in a scratch directory.
package reconfig

import (
	"bytes"
	"context"
	"errors"
	"fmt"
	"os"
	"path/filepath"
	"reflect"
	"runtime"
	"sort"
	"strconv"
	"sync"
	"time"
	"unsafe"

	"verifharness/internal/hx"

	"github.com/els0r/goProbe/v4/cmd/goProbe/config"
	gpcapture "github.com/els0r/goProbe/v4/pkg/capture"
	"github.com/els0r/goProbe/v4/pkg/capture/capturetypes"
	"github.com/els0r/goProbe/v4/pkg/goDB/encoder/encoders"
	"github.com/els0r/goProbe/v4/pkg/goDB/engine"
	"github.com/els0r/goProbe/v4/pkg/goprobe/writeout"
	"github.com/els0r/goProbe/v4/pkg/query"
	"github.com/els0r/goProbe/v4/pkg/types"
	"github.com/fako1024/gotools/link"
	slimcap "github.com/fako1024/slimcap/capture"
	"golang.org/x/net/bpf"
)

// hostLinks is pkg/capture's "local function variable to allow mocking in tests".
//
//go:linkname hostLinks github.com/els0r/goProbe/v4/pkg/capture.hostLinks
var hostLinks func(...string) (link.Links, error)

var linksMu sync.Mutex

// setHostLinks makes the manager see exactly these interfaces (one universe per harness process).
func setHostLinks(names []string) {
	linksMu.Lock()
	defer linksMu.Unlock()
	ls := make(link.Links, 0, len(names))
	for i, n := range names {
		ls = append(ls, &link.Link{Name: n, Index: i + 1, Type: link.TypeEthernet})
	}
	hostLinks = func(...string) (link.Links, error) { return ls, nil }
}

// ---------------------------------------------------------------- scripted capture source

type srcPkt struct {
	ip      []byte
	pktType byte
	size    uint32
}

type scriptedSource struct {
	name     string
	pk       chan srcPkt
	unblock  chan struct{}
	closed   chan struct{}
	consumed chan struct{}
	pending  bool
	once     sync.Once
}

func newScriptedSource(name string) *scriptedSource {
	return &scriptedSource{name: name, pk: make(chan srcPkt), unblock: make(chan struct{}, 1),
		closed: make(chan struct{}), consumed: make(chan struct{}, 1)}
}

var errNotScripted = errors.New("scripted source: only the zero-copy IP packet interface is implemented")

func (s *scriptedSource) NextIPPacketZeroCopy() (slimcap.IPLayer, slimcap.PacketType, uint32, error) {
	if s.pending {
		s.pending = false
		s.consumed <- struct{}{}
	}
	select {
	case p := <-s.pk:
		s.pending = true
		return slimcap.IPLayer(p.ip), p.pktType, p.size, nil
	case <-s.unblock:
		return nil, 0, 0, slimcap.ErrCaptureUnblocked
	case <-s.closed:
		return nil, 0, 0, slimcap.ErrCaptureStopped
	}
}

func (s *scriptedSource) NextPayloadZeroCopy() ([]byte, slimcap.PacketType, uint32, error) {
	return nil, 0, 0, errNotScripted
}
func (s *scriptedSource) NewPacket() slimcap.Packet { return nil }
func (s *scriptedSource) NextPacket(slimcap.Packet) (slimcap.Packet, error) {
	return nil, errNotScripted
}
func (s *scriptedSource) NextPayload([]byte) ([]byte, byte, uint32, error) {
	return nil, 0, 0, errNotScripted
}
func (s *scriptedSource) NextIPPacket(slimcap.IPLayer) (slimcap.IPLayer, slimcap.PacketType, uint32, error) {
	return nil, 0, 0, errNotScripted
}
func (s *scriptedSource) NextPacketFn(func([]byte, uint32, slimcap.PacketType, byte) error) error {
	return errNotScripted
}
func (s *scriptedSource) Stats() (slimcap.Stats, error) { return slimcap.Stats{}, nil }
func (s *scriptedSource) Link() *link.Link                { return &link.Link{} }
func (s *scriptedSource) Unblock() error {
	select {
	case s.unblock <- struct{}{}:
	default:
	}
	return nil
}
func (s *scriptedSource) Close() error {
	s.once.Do(func() { close(s.closed) })
	return nil
}

const stepTimeout = 30 * time.Second

var errSourceClosed = errors.New("capture source is closed")

// send hands one packet to the capture loop and waits until it has been processed.
func (s *scriptedSource) send(p srcPkt) error {
	select {
	case s.pk <- p:
	case <-s.closed:
		return errSourceClosed
	case <-time.After(stepTimeout):
		return errors.New("capture loop does not fetch packets (dead?)")
	}
	select {
	case <-s.consumed:
		return nil
	case <-time.After(stepTimeout):
		return errors.New("capture loop did not finish processing the packet")
	}
}

// thePacket is the one conversation all traffic of this family belongs to: a TCP SYN
// 10.1.1.1:40001 -> 10.2.2.2:80.
func thePacket() srcPkt {
	b := make([]byte, 44)
	b[0] = 0x45
	b[3] = 44
	b[8] = 64
	b[9] = 6
	copy(b[12:16], []byte{10, 1, 1, 1})
	copy(b[16:20], []byte{10, 2, 2, 2})
	b[20], b[21] = 0x9c, 0x41
	b[22], b[23] = 0, 80
	b[32] = 0x50
	b[33] = 0x02
	return srcPkt{ip: b, pktType: slimcap.PacketThisHost, size: 60}
}

// ---------------------------------------------------------------- parameters

// Param is the parameter record of Reconfig.tla.
type Param struct {
	Promisc bool `json:"promisc"`
	RB      int  `json:"rb"`
	VLANs   bool `json:"vlans"`
	BPF     int  `json:"bpf"`
	Disable bool `json:"disable"`
}

var ringBuffers = map[int]config.RingBufferConfig{
	1: {BlockSize: 1 << 20, NumBlocks: 4},
	2: {BlockSize: 2 << 20, NumBlocks: 4},
	3: {BlockSize: 1 << 20, NumBlocks: 8},
}

// concrete maps a parameter record to the real configuration of one interface.
func (p Param) concrete() config.CaptureConfig {
	c := config.CaptureConfig{Promisc: p.Promisc, IgnoreVLANs: p.VLANs, Disable: p.Disable}
	if rb, ok := ringBuffers[p.RB]; ok {
		r := rb
		c.RingBuffer = &r
	}
	for i := 0; i < p.BPF; i++ {
		c.ExtraBPFFilters = append(c.ExtraBPFFilters, bpf.RawInstruction{Op: 0x06, K: 0x00040000})
	}
	return c
}

// abstract projects a real interface configuration back (rb = -1: no known ring buffer variant).
func abstract(c config.CaptureConfig) Param {
	p := Param{Promisc: c.Promisc, VLANs: c.IgnoreVLANs, Disable: c.Disable, BPF: len(c.ExtraBPFFilters)}
	if c.RingBuffer != nil {
		p.RB = -1
		for k, rb := range ringBuffers {
			if rb == *c.RingBuffer {
				p.RB = k
			}
		}
	}
	return p
}

// Cfg is a configuration of Reconfig.tla: entry key (interface name or /regexp/) -> parameters.
type Cfg map[string]Param

func (c Cfg) concrete() *config.Config {
	out := &config.Config{Interfaces: config.Ifaces{}}
	for k, p := range c {
		out.Interfaces[k] = p.concrete()
	}
	return out
}

// ---------------------------------------------------------------- write-out handler with a window

// windowHandler wraps the goDB write-out handler: block timestamps are T0, T0+300, ... and, when
// all interfaces of a write-out have been rotated, the packets the harness wants inside the window
// between the final write-out and the stop of the captures are delivered.
type windowHandler struct {
	inner writeout.Handler
	w     *world
	mu    sync.Mutex
	ts    int64
}

const T0 = int64(1700000100)

func (h *windowHandler) HandleWriteout(ctx context.Context, _ time.Time, ch <-chan capturetypes.TaggedAggFlowMap) <-chan struct{} {
	h.mu.Lock()
	ts := h.ts
	h.ts += 300
	h.mu.Unlock()
	fwd := make(chan capturetypes.TaggedAggFlowMap, writeout.WriteoutsChanDepth)
	innerDone := h.inner.HandleWriteout(ctx, time.Unix(ts, 0), fwd)
	done := make(chan struct{})
	go func() {
		for m := range ch {
			fwd <- m
		}
		h.w.inWindow()
		close(fwd)
		<-innerDone
		done <- struct{}{}
	}()
	return done
}

// ---------------------------------------------------------------- the world

type world struct {
	db      string
	mgr     *gpcapture.Manager
	mu      sync.Mutex
	srcs    map[string]*scriptedSource    // latest source per interface
	caps    map[string]*gpcapture.Capture // latest capture per interface
	started map[string]Param              // parameters the latest capture of an interface was created with
	starts  map[string]int                // how often a capture was started per interface
	window  []string                      // interfaces that get a packet in the next stop window
	winSent map[string]bool               // ... and which of them got it
	winErr  error
	broken  bool
}

// keepErrorLoggers selects how Manager.Update is called.  For every capture it starts, the manager
// spawns a goroutine (Manager.logErrors) that tears the capture of that interface *name* down when
// the capture's error channel closes - also when the capture was stopped by a later Update and a
// successor already runs under the same name.  Whether the successor is hit depends on goroutine
// scheduling.  The regular schedules take this race out: each Update gets its own context, which is
// cancelled after the call (the goroutines' only other exit) and the harness waits until they are
// gone, so that every schedule is deterministic.  The restart-stress schedules keep the goroutines
// (background context, as goProbe does) and probe the race opportunistically.
var keepErrorLoggers = false

// waitNoErrorLoggers waits until no logErrors goroutine of this manager is left (they are found in
// the goroutine dump by function name and receiver address).
func (w *world) waitNoErrorLoggers() {
	needle := fmt.Sprintf("(*Manager).logErrors(%p", w.mgr)
	buf := make([]byte, 1<<20)
	for k := 0; k < 400; k++ {
		n := runtime.Stack(buf, true)
		for n == len(buf) && len(buf) < 64<<20 {
			buf = make([]byte, 2*len(buf))
			n = runtime.Stack(buf, true)
		}
		if !bytes.Contains(buf[:n], []byte(needle)) {
			return
		}
		time.Sleep(250 * time.Microsecond)
	}
}

func newWorld() (*world, error) {
	dir, err := os.MkdirTemp("", "verif-rc-db-")
	if err != nil {
		return nil, err
	}
	w := &world{db: dir, srcs: map[string]*scriptedSource{}, caps: map[string]*gpcapture.Capture{},
		started: map[string]Param{}, starts: map[string]int{}}
	h := &windowHandler{inner: writeout.NewGoDBHandler(dir, encoders.EncoderTypeLZ4), w: w, ts: T0}
	w.mgr = gpcapture.NewManager(h, gpcapture.WithSourceInitFn(func(c *gpcapture.Capture) (slimcap.SourceZeroCopy, error) {
		s := newScriptedSource(c.Iface())
		p, err := captureParams(c)
		if err != nil {
			return nil, err
		}
		w.mu.Lock()
		w.srcs[c.Iface()] = s
		w.caps[c.Iface()] = c
		w.started[c.Iface()] = p
		w.starts[c.Iface()]++
		w.mu.Unlock()
		return s, nil
	}))
	return w, nil
}

// captureParams reads the configuration a capture was created with (unexported field, only read).
func captureParams(c *gpcapture.Capture) (Param, error) {
	f := reflect.ValueOf(c).Elem().FieldByName("config")
	if !f.IsValid() || f.Type() != reflect.TypeOf(config.CaptureConfig{}) {
		return Param{}, errors.New("Capture has no config field of type config.CaptureConfig any more")
	}
	return abstract(*(*config.CaptureConfig)(unsafe.Pointer(f.UnsafeAddr()))), nil
}

// inWindow runs inside Manager.Update, after the final write-out rotated the captures to be stopped
// and before they are closed.
func (w *world) inWindow() {
	w.mu.Lock()
	win := w.window
	w.mu.Unlock()
	for _, i := range win {
		w.mu.Lock()
		s := w.srcs[i]
		w.mu.Unlock()
		if s == nil {
			continue
		}
		if err := s.send(thePacket()); err != nil {
			w.mu.Lock()
			w.winErr = fmt.Errorf("window packet on %s: %v", i, err)
			w.mu.Unlock()
			return
		}
		w.mu.Lock()
		w.winSent[i] = true
		w.mu.Unlock()
	}
}

// running lists the interfaces with a running capture (Manager.Status).
func (w *world) running() ([]string, error) {
	var st capturetypes.InterfaceStats
	done := make(chan string, 1)
	go func() { done <- hx.Catch(func() { st = w.mgr.Status(context.Background()) }) }()
	select {
	case p := <-done:
		if p != "" {
			return nil, fmt.Errorf("Manager.Status panicked: %s", p)
		}
	case <-time.After(stepTimeout):
		w.broken = true
		return nil, errors.New("Manager.Status does not return")
	}
	var out []string
	for i := range st {
		out = append(out, i)
	}
	sort.Strings(out)
	return out, nil
}

// packets delivers one packet to every listed interface that has a running capture.
func (w *world) packets(ifaces []string) error {
	for _, i := range ifaces {
		s := w.srcs[i]
		if s == nil {
			return fmt.Errorf("no capture source for %s", i)
		}
		if err := s.send(thePacket()); err != nil {
			return fmt.Errorf("packet on %s: %v", i, err)
		}
	}
	return nil
}

// update calls Manager.Update(cfg) with window packets on win (interfaces running before the call).
// panicked / hung describe a call that did not return normally (the manager is unusable then).
func (w *world) update(c Cfg, win []string) (err error, panicked string, hung bool, sentInWindow map[string]bool) {
	w.mu.Lock()
	w.window, w.winSent, w.winErr = win, map[string]bool{}, nil
	w.mu.Unlock()
	ctx, cancel := context.WithCancel(context.Background())
	done := make(chan string, 1)
	go func() {
		done <- hx.Catch(func() { _, _, _, err = w.mgr.Update(ctx, c.concrete()) })
	}()
	select {
	case panicked = <-done:
	case <-time.After(stepTimeout):
		hung = true
	}
	if keepErrorLoggers {
		_ = cancel // the context lives as long as the process, as in goProbe
	} else {
		cancel()
		if panicked == "" && !hung {
			w.waitNoErrorLoggers()
		}
	}
	w.mu.Lock()
	sentInWindow = w.winSent
	w.window = nil
	werr := w.winErr
	w.mu.Unlock()
	if panicked != "" || hung {
		w.broken = true
		return
	}
	if err == nil && werr != nil {
		err = werr
	}
	return
}

// memory returns the packets held in memory by the latest capture of iface.
func (w *world) memory(iface string) (int, error) {
	c := w.caps[iface]
	if c == nil {
		return 0, nil
	}
	f := reflect.ValueOf(c).Elem().FieldByName("flowLog")
	if !f.IsValid() || f.Kind() != reflect.Ptr {
		return 0, errors.New("Capture has no flowLog field any more")
	}
	fl := (*gpcapture.FlowLog)(unsafe.Pointer(f.Pointer()))
	n := 0
	for _, v := range fl.FlowsV4() {
		n += int(v.PacketsRcvd + v.PacketsSent)
	}
	for _, v := range fl.FlowsV6() {
		n += int(v.PacketsRcvd + v.PacketsSent)
	}
	return n, nil
}

// stored returns the packets of iface in the database (0 if the interface was never written).
func (w *world) stored(iface string) (int, error) {
	if _, err := os.Stat(filepath.Join(w.db, iface)); err != nil {
		return 0, nil
	}
	a := &query.Args{Query: "sip,dip,dport,proto", Ifaces: iface, First: strconv.FormatInt(T0-86400, 10),
		Last: strconv.FormatInt(types.MaxTime.Unix(), 10), Format: "json", NumResults: 100000000, MaxMemPct: 90, SortBy: "packets"}
	res, err := engine.NewQueryRunner(w.db).Run(context.Background(), a)
	if err != nil {
		return 0, fmt.Errorf("reading the database of %s back: %v", iface, err)
	}
	n := 0
	for _, r := range res.Rows {
		n += int(r.Counters.PacketsRcvd + r.Counters.PacketsSent)
	}
	return n, nil
}

func (w *world) stop() {
	if !w.broken {
		done := make(chan struct{})
		go func() {
			hx.Catch(func() { w.mgr.Close(context.Background()) })
			close(done)
		}()
		select {
		case <-done:
		case <-time.After(stepTimeout):
		}
	} else {
		// the manager is locked up: release the capture loops at least
		w.mu.Lock()
		for _, s := range w.srcs {
			s.Close()
		}
		w.mu.Unlock()
	}
	os.RemoveAll(w.db)
}
