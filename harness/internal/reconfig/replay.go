package reconfig

// replay.go
//
//	rc-replay  F: configuration histories printed by spec/reconfig/ReconfigGen.tla are executed on a
//	           fresh capture.Manager each; after every step the running captures (Manager.Status), the
//	           parameters each capture was started with, the parameters the manager reports
//	           (Manager.Config), the packets in the database and in memory are compared with the
//	           specification's values.
//	rc-drive   B: histories containing overlapping patterns are executed on many fresh managers and
//	           logged as events for ReconfigTrace.tla (TLC decides, with the choice function as witness).
//
// Input of both: first line = the domain printed by the specification ({"links", "matches"} and,
// for rc-drive, {"plain", "overlap"} configuration lists).

import (
	"bytes"
	"encoding/json"
	"flag"
	"fmt"
	"io"
	"log/slog"
	"os"
	"regexp"
	"sort"
	"strings"
	"sync"

	"verifharness/internal/hx"

	"github.com/els0r/telemetry/logging"
)

type domain struct {
	Links   []string            `json:"links"`
	Matches map[string][]string `json:"matches"`
	Plain   []Cfg               `json:"plain"`
	Overlap []Cfg               `json:"overlap"`
}

// checkDomain verifies that the real regexps match exactly what the specification's table says.
func checkDomain(d *domain) error {
	if len(d.Links) == 0 {
		return fmt.Errorf("domain without links")
	}
	for pat, ms := range d.Matches {
		if len(pat) < 3 || pat[0] != '/' || pat[len(pat)-1] != '/' {
			return fmt.Errorf("pattern %q is not of the form /regexp/", pat)
		}
		re, err := regexp.Compile(pat[1 : len(pat)-1])
		if err != nil {
			return fmt.Errorf("pattern %q: %v", pat, err)
		}
		want := map[string]bool{}
		for _, m := range ms {
			want[m] = true
		}
		for _, l := range d.Links {
			if re.MatchString(l) != want[l] {
				return fmt.Errorf("the specification's match table disagrees with regexp %q on %q", pat, l)
			}
		}
	}
	return nil
}

type action struct {
	Name string   `json:"name"`
	S    []string `json:"s,omitempty"`
	Cfg  Cfg      `json:"cfg,omitempty"`
	Win  []string `json:"win,omitempty"`
}

type expObs struct {
	Running json.RawMessage `json:"running"` // object iface -> Param; [] when empty
	DB      map[string]int  `json:"db"`
	Log     map[string]int  `json:"log"`
}

func (e expObs) running() (map[string]Param, error) {
	m := map[string]Param{}
	r := bytes.TrimSpace(e.Running)
	if len(r) == 0 || r[0] == '[' {
		return m, nil
	}
	err := json.Unmarshal(r, &m)
	return m, err
}

type step struct {
	Act action `json:"act"`
	Exp expObs `json:"exp"`
}

type failure struct {
	Step int            `json:"step"`
	Msg  string         `json:"msg"`
	Desc map[string]any `json:"desc"`
}

// observation is what the manager shows between two steps.
type observation struct {
	Running  []string         `json:"running"`
	Started  map[string]Param `json:"started"`  // parameters the running captures were created with
	Reported map[string]Param `json:"reported"` // Manager.Config()
	DB       map[string]int   `json:"db"`
	Log      map[string]int   `json:"log"`
}

func (w *world) observe(links []string) (*observation, error) {
	run, err := w.running()
	if err != nil {
		return nil, err
	}
	o := &observation{Running: run, Started: map[string]Param{}, Reported: map[string]Param{}, DB: map[string]int{}, Log: map[string]int{}}
	isRunning := map[string]bool{}
	w.mu.Lock()
	for _, i := range run {
		isRunning[i] = true
		o.Started[i] = w.started[i]
	}
	w.mu.Unlock()
	for i, c := range w.mgr.Config() {
		o.Reported[i] = abstract(c)
	}
	for _, l := range links {
		if o.DB[l], err = w.stored(l); err != nil {
			return nil, err
		}
		if isRunning[l] {
			if o.Log[l], err = w.memory(l); err != nil {
				return nil, err
			}
		} else {
			o.Log[l] = 0
		}
	}
	return o, nil
}

func diffFields(a, b Param) []string {
	var f []string
	if a.Promisc != b.Promisc {
		f = append(f, "promisc")
	}
	if a.RB != b.RB {
		f = append(f, "ring_buffer")
	}
	if a.VLANs != b.VLANs {
		f = append(f, "ignore_vlans")
	}
	if a.BPF != b.BPF {
		f = append(f, "extra_bpf_filters")
	}
	if a.Disable != b.Disable {
		f = append(f, "disable")
	}
	return f
}

func keys(m map[string]Param) []string {
	var k []string
	for x := range m {
		k = append(k, x)
	}
	sort.Strings(k)
	return k
}

// disabledBy reports whether configuration c disables interface l (its explicit entry, or a pattern
// entry matching it, has disable set).
func disabledBy(d *domain, c Cfg, l string) bool {
	if p, ok := c[l]; ok {
		return p.Disable
	}
	for pat, p := range c {
		for _, m := range d.Matches[pat] {
			if m == l && p.Disable {
				return true
			}
		}
	}
	return false
}

// compare classifies the first difference between what the manager shows and the specification.
// lostBudget[l] = window packets delivered so far to captures of l that were stopped afterwards.
func compare(d *domain, c Cfg, o *observation, exp expObs, lostBudget map[string]int, restarted map[string]bool) *failure {
	er, err := exp.running()
	if err != nil {
		hx.Die("reconfig: bad exp.running: %v", err)
	}
	want := keys(er)
	if strings.Join(want, ",") != strings.Join(o.Running, ",") {
		var extra, missing []string
		for _, i := range o.Running {
			if _, ok := er[i]; !ok {
				extra = append(extra, i)
			}
		}
		for _, i := range want {
			if _, ok := o.Started[i]; !ok {
				missing = append(missing, i)
			}
		}
		cls := "running-set-differs"
		if len(extra) == 0 && len(missing) > 0 {
			all := true
			for _, i := range missing {
				if !restarted[i] {
					all = false
				}
			}
			if all {
				// a capture that replaced an earlier capture of the same interface is gone
				cls = "restarted-capture-torn-down"
			}
		}
		if len(missing) == 0 && len(extra) > 0 {
			all := true
			for _, i := range extra {
				if !disabledBy(d, c, i) {
					all = false
				}
			}
			if all {
				// an entry with disable = true is treated like any other entry
				return &failure{Msg: fmt.Sprintf("running captures %v, specification %v: interfaces disabled by the configuration %v run", o.Running, want, c),
					Desc: map[string]any{"cls": "disable-not-honoured", "symptom": "disabled-iface-runs"}}
			}
		}
		return &failure{Msg: fmt.Sprintf("running captures %v, specification %v (configuration %v)", o.Running, want, c),
			Desc: map[string]any{"cls": cls}}
	}
	for _, i := range want {
		if f := diffFields(o.Started[i], er[i]); len(f) > 0 {
			cls := "params-differ"
			stale := true
			for _, x := range f {
				if x != "ignore_vlans" && x != "extra_bpf_filters" {
					stale = false
				}
			}
			if stale && o.Reported[i] == er[i] {
				// the manager reports the new parameters but the capture still runs with the old ones
				cls = "param-change-not-applied"
			}
			return &failure{Msg: fmt.Sprintf("capture on %s runs with %+v, specification %+v (Manager.Config reports %+v)", i, o.Started[i], er[i], o.Reported[i]),
				Desc: map[string]any{"cls": cls, "fields": f}}
		}
	}
	for _, i := range want {
		if rp, ok := o.Reported[i]; !ok || rp != er[i] {
			return &failure{Msg: fmt.Sprintf("Manager.Config reports %+v for %s (present=%v), specification %+v", rp, i, ok, er[i]),
				Desc: map[string]any{"cls": "reported-config-differs"}}
		}
	}
	for _, l := range d.Links {
		if o.DB[l] != exp.DB[l] {
			cls := "db-differs"
			if miss := exp.DB[l] - o.DB[l]; miss > 0 && miss == lostBudget[l] && o.Log[l] == exp.Log[l] {
				cls = "lost-in-stop-window"
			}
			return &failure{Msg: fmt.Sprintf("database holds %d packets of %s, specification %d (%d packets were delivered to captures of %s between their final write-out and their stop)",
				o.DB[l], l, exp.DB[l], lostBudget[l], l), Desc: map[string]any{"cls": cls}}
		}
	}
	for _, l := range d.Links {
		if o.Log[l] != exp.Log[l] {
			return &failure{Msg: fmt.Sprintf("capture on %s holds %d packets in memory, specification %d", l, o.Log[l], exp.Log[l]),
				Desc: map[string]any{"cls": "memory-differs"}}
		}
	}
	return nil
}

func intersect(a []string, b []string) []string {
	in := map[string]bool{}
	for _, x := range b {
		in[x] = true
	}
	var out []string
	for _, x := range a {
		if in[x] {
			out = append(out, x)
		}
	}
	sort.Strings(out)
	return out
}

// doUpdate performs one Update step on the world: window packets go to the captures running before
// the call; if the manager performed no final write-out (nothing to stop) the packets are delivered
// right after the call - the captures are untouched by such an update, so this is the same state.
// It returns the interfaces whose window packet went to a capture that was stopped afterwards.
//
// memBefore gives, per interface, the packets the specification has in memory before the update.  A
// capture that is stopped by the update although no write-out passed the write-out handler loses them:
// that is a verdict on the code, not a failure of the harness.  When the specification has nothing in
// memory there the window packet cannot be placed and the rest of the behaviour is not judged.
const inconclusive = "INCONCLUSIVE"

func doUpdate(d *domain, w *world, c Cfg, win []string, before []string, memBefore map[string]int) (f *failure, lostOn []string, mach string) {
	target := intersect(win, before)
	startsBefore := map[string]int{}
	w.mu.Lock()
	for k, v := range w.starts {
		startsBefore[k] = v
	}
	w.mu.Unlock()
	err, panicked, hung, sent := w.update(c, target)
	switch {
	case panicked != "":
		desc := map[string]any{"cls": "update-panics"}
		for _, i := range before {
			if disabledBy(d, c, i) {
				// a running interface becomes disabled: the disabled entry (no ring buffer) reaches the diff
				desc = map[string]any{"cls": "disable-not-honoured", "symptom": "update-panics"}
			}
		}
		if len(panicked) > 1200 {
			panicked = panicked[:1200]
		}
		return &failure{Msg: fmt.Sprintf("Manager.Update(%v) panicked with captures %v running (the manager stays locked): %s", c, before, panicked),
			Desc: desc}, nil, ""
	case hung:
		return &failure{Msg: fmt.Sprintf("Manager.Update(%v) did not return", c), Desc: map[string]any{"cls": "update-hangs"}}, nil, ""
	case err != nil:
		return &failure{Msg: fmt.Sprintf("Manager.Update(%v) failed: %v", c, err), Desc: map[string]any{"cls": "update-fails"}}, nil, ""
	}
	after, rerr := w.running()
	if rerr != nil {
		return nil, nil, rerr.Error()
	}
	stillSame := map[string]bool{}
	w.mu.Lock()
	for _, i := range after {
		if w.starts[i] == startsBefore[i] {
			stillSame[i] = true
		}
	}
	w.mu.Unlock()
	var late []string
	for _, i := range target {
		if sent[i] {
			if !stillSame[i] {
				lostOn = append(lostOn, i)
			}
			continue
		}
		if !stillSame[i] {
			if memBefore[i] > 0 {
				return &failure{Msg: fmt.Sprintf("Manager.Update(%v) stopped the capture on %s without a final write-out: the %d packets it held in memory are lost", c, i, memBefore[i]),
					Desc: map[string]any{"cls": "stopped-without-final-writeout"}}, nil, ""
			}
			return nil, nil, inconclusive
		}
		late = append(late, i)
	}
	if err := w.packets(late); err != nil {
		return nil, nil, err.Error()
	}
	return nil, lostOn, ""
}

type stats struct{ steps, updates, packets, managers, inconclusive int }

// runBehaviour executes one behaviour of ReconfigGen on a fresh manager.
func runBehaviour(d *domain, beh []step, st *stats, corrupt bool) (*failure, string) {
	w, err := newWorld()
	if err != nil {
		return nil, err.Error()
	}
	defer w.stop()
	st.managers++
	lost := map[string]int{}
	restarted := map[string]bool{}
	var cur Cfg
	for i, s := range beh {
		before, err := w.running()
		if err != nil {
			return nil, err.Error()
		}
		switch s.Act.Name {
		case "Packets":
			hit := intersect(s.Act.S, before)
			if err := w.packets(hit); err != nil {
				return nil, fmt.Sprintf("step %d: %v", i, err)
			}
			st.packets += len(hit)
		case "Update":
			cur = s.Act.Cfg
			startsBefore := map[string]int{}
			w.mu.Lock()
			for k, v := range w.starts {
				startsBefore[k] = v
			}
			w.mu.Unlock()
			memBefore := map[string]int{}
			if i > 0 {
				memBefore = beh[i-1].Exp.Log
			}
			f, lostOn, mach := doUpdate(d, w, cur, s.Act.Win, before, memBefore)
			w.mu.Lock()
			for _, b := range before {
				// the interface had a capture before this update and got a new one in it
				if w.starts[b] > startsBefore[b] {
					restarted[b] = true
				}
			}
			w.mu.Unlock()
			if mach == inconclusive {
				st.inconclusive++
				return nil, ""
			}
			if mach != "" {
				return nil, fmt.Sprintf("step %d: %s", i, mach)
			}
			st.updates++
			if f != nil {
				f.Step = i
				return f, ""
			}
			for _, l := range lostOn {
				lost[l]++
			}
		default:
			return nil, fmt.Sprintf("step %d: unknown action %q", i, s.Act.Name)
		}
		st.steps++
		o, err := w.observe(d.Links)
		if err != nil {
			return nil, fmt.Sprintf("step %d: %v", i, err)
		}
		exp := s.Exp
		if corrupt && i == len(beh)-1 { // negative control: one expected value changed
			exp.DB = map[string]int{}
			for k, v := range s.Exp.DB {
				exp.DB[k] = v
			}
			exp.DB[d.Links[0]]++
		}
		if f := compare(d, cur, o, exp, lost, restarted); f != nil {
			f.Step = i
			f.Desc["after"] = s.Act.Name
			return f, ""
		}
	}
	return nil, ""
}

func readDomain(line []byte) (*domain, error) {
	var d domain
	if err := json.Unmarshal(line, &d); err != nil {
		return nil, err
	}
	sort.Strings(d.Links)
	if err := checkDomain(&d); err != nil {
		return nil, err
	}
	setHostLinks(d.Links)
	return &d, nil
}

// Replay is rc-replay.
func Replay(in io.Reader, out io.Writer, negative bool, workers int) {
	_, _ = logging.Init(slog.LevelError+8, logging.EncodingPlain, logging.WithOutput(io.Discard), logging.WithErrorOutput(io.Discard))
	o := hx.NewOut(out)
	defer o.Flush()
	var d *domain
	var behs [][]byte
	err := hx.Lines(in, func(line []byte) error {
		if d == nil {
			var err error
			d, err = readDomain(line)
			return err
		}
		behs = append(behs, append([]byte{}, line...))
		return nil
	})
	if err != nil || d == nil {
		hx.Die("reconfig replay: %v", err)
	}
	type outcome struct {
		f    *failure
		mach string
		st   stats
		beh  []step
	}
	outs := make([]outcome, len(behs))
	jobs := make(chan int)
	var wg sync.WaitGroup
	if workers < 1 {
		workers = 1
	}
	for k := 0; k < workers; k++ {
		wg.Add(1)
		go func() {
			defer wg.Done()
			for n := range jobs {
				oc := &outs[n]
				if err := json.Unmarshal(behs[n], &oc.beh); err != nil {
					oc.mach = err.Error()
					continue
				}
				oc.f, oc.mach = runBehaviour(d, oc.beh, &oc.st, negative)
			}
		}()
	}
	for n := range behs {
		jobs <- n
	}
	close(jobs)
	wg.Wait()
	var tot stats
	bad := 0
	for n, oc := range outs {
		if oc.mach != "" {
			o.Flush()
			hx.Die("reconfig replay: behaviour %d: %s", n, oc.mach)
		}
		tot.steps += oc.st.steps
		tot.updates += oc.st.updates
		tot.packets += oc.st.packets
		tot.managers += oc.st.managers
		tot.inconclusive += oc.st.inconclusive
		if oc.f != nil {
			bad++
			oc.f.Desc["binding"] = "F"
			o.Emit(map[string]any{"id": n, "ok": false, "step": oc.f.Step, "msg": oc.f.Msg, "desc": oc.f.Desc,
				"behaviour": oc.beh[:oc.f.Step+1]})
		}
	}
	o.Emit(map[string]any{"summary": true, "behaviours": len(behs), "steps": tot.steps, "updates": tot.updates,
		"packets": tot.packets, "managers": tot.managers, "inconclusive": tot.inconclusive, "failed": bad})
}

// ---------------------------------------------------------------- B driver

type runEntry struct {
	I string `json:"i"`
	P Param  `json:"p"`
}

type event struct {
	Ev      string         `json:"ev"`
	Hist    int            `json:"hist"`
	Mgr     int            `json:"mgr"`
	S       []string       `json:"s"`
	Cfg     Cfg            `json:"cfg,omitempty"`
	Win     []string       `json:"win"`
	Running []runEntry     `json:"running"`
	DB      map[string]int `json:"db,omitempty"`
	Log     map[string]int `json:"log,omitempty"`
	Note    string         `json:"note,omitempty"`
}

// histories: every sequence of length 1..maxLen over pool that contains an overlap configuration,
// capped at maxHist by seeded sampling (the short ones are always kept).
func histories(d *domain, pool []Cfg, nOverlap int, maxLen, maxHist int, rng *hx.RNG) [][]int {
	var all [][]int
	var rec func(cur []int)
	rec = func(cur []int) {
		if len(cur) > 0 {
			has := false
			for _, x := range cur {
				if x < nOverlap {
					has = true
				}
			}
			if has {
				all = append(all, append([]int{}, cur...))
			}
		}
		if len(cur) == maxLen {
			return
		}
		for i := range pool {
			rec(append(cur, i))
		}
	}
	rec(nil)
	sort.SliceStable(all, func(a, b int) bool { return len(all[a]) < len(all[b]) })
	if len(all) <= maxHist {
		return all
	}
	keep := 0
	for keep < len(all) && len(all[keep]) <= 2 && keep < maxHist {
		keep++
	}
	out := append([][]int{}, all[:keep]...)
	rest := all[keep:]
	for len(out) < maxHist && len(rest) > 0 {
		j := rng.Intn(len(rest))
		out = append(out, rest[j])
		rest[j] = rest[len(rest)-1]
		rest = rest[:len(rest)-1]
	}
	return out
}

// Drive is rc-drive: histories with overlapping patterns on `managers` fresh managers each.
func Drive(in io.Reader, out io.Writer, seed uint64, managers, maxLen, maxHist, workers int) {
	_, _ = logging.Init(slog.LevelError+8, logging.EncodingPlain, logging.WithOutput(io.Discard), logging.WithErrorOutput(io.Discard))
	o := hx.NewOut(out)
	defer o.Flush()
	var d *domain
	if err := hx.Lines(in, func(line []byte) error {
		if d == nil {
			var err error
			d, err = readDomain(line)
			return err
		}
		return nil
	}); err != nil || d == nil {
		hx.Die("reconfig drive: %v", err)
	}
	if len(d.Overlap) == 0 {
		hx.Die("reconfig drive: the domain has no overlapping configurations")
	}
	rng := hx.NewRNG(seed ^ 0xc27)
	pool := append([]Cfg{}, d.Overlap...)
	// a few plain configurations in between: seeded choice of three
	plain := append([]Cfg{}, d.Plain...)
	sort.Slice(plain, func(a, b int) bool { return fmt.Sprint(plain[a]) < fmt.Sprint(plain[b]) })
	for k := 0; k < 3 && len(plain) > 0; k++ {
		j := rng.Intn(len(plain))
		pool = append(pool, plain[j])
		plain = append(plain[:j], plain[j+1:]...)
	}
	hs := histories(d, pool, len(d.Overlap), maxLen, maxHist, rng)
	type job struct{ h, m int }
	results := make([][]event, len(hs)*managers)
	machs := make([]string, len(hs)*managers)
	jobs := make(chan job)
	var wg sync.WaitGroup
	if workers < 1 {
		workers = 1
	}
	for k := 0; k < workers; k++ {
		wg.Add(1)
		go func() {
			defer wg.Done()
			for j := range jobs {
				evs, mach := driveOne(d, pool, hs[j.h], j.h, j.m)
				results[j.h*managers+j.m], machs[j.h*managers+j.m] = evs, mach
			}
		}()
	}
	for h := range hs {
		for m := 0; m < managers; m++ {
			jobs <- job{h, m}
		}
	}
	close(jobs)
	wg.Wait()
	for i, evs := range results {
		if machs[i] != "" {
			o.Flush()
			hx.Die("reconfig drive: history %d manager %d: %s", i/managers, i%managers, machs[i])
		}
		for _, e := range evs {
			o.Emit(e)
		}
	}
}

func emptyIfNil(s []string) []string {
	if s == nil {
		return []string{}
	}
	return s
}

// driveOne runs one history on one fresh manager: Packets(all) ; Update(c, all) ; ... and logs it.
// A panic / hang / error of Update ends the manager's events with a Crash event.
func driveOne(d *domain, pool []Cfg, hist []int, h, m int) ([]event, string) {
	w, err := newWorld()
	if err != nil {
		return nil, err.Error()
	}
	defer w.stop()
	evs := []event{{Ev: "Reset", Hist: h, Mgr: m, S: []string{}, Win: []string{}, Running: []runEntry{}}}
	for k, ci := range hist {
		before, err := w.running()
		if err != nil {
			return nil, err.Error()
		}
		if len(before) > 0 {
			if err := w.packets(before); err != nil {
				return nil, err.Error()
			}
			evs = append(evs, event{Ev: "Packets", Hist: h, Mgr: m, S: emptyIfNil(before), Win: []string{}, Running: []runEntry{}})
		}
		// no traffic inside the stop window here (rc-replay covers it): a manager that loses packets
		// leaves the model and the rest of its events - the choices they show - would be skipped
		var win []string
		_ = k
		c := pool[ci]
		f, _, mach := doUpdate(d, w, c, win, before, nil)
		if mach != "" {
			return nil, mach
		}
		if f != nil {
			evs = append(evs, event{Ev: "Crash", Hist: h, Mgr: m, Cfg: c, S: []string{}, Win: emptyIfNil(win), Running: []runEntry{}, Note: f.Msg})
			return evs, ""
		}
		o, err := w.observe(d.Links)
		if err != nil {
			return nil, err.Error()
		}
		e := event{Ev: "Update", Hist: h, Mgr: m, Cfg: c, S: []string{}, Win: emptyIfNil(intersect(win, before)), Running: []runEntry{}, DB: o.DB, Log: o.Log}
		for _, i := range o.Running {
			e.Running = append(e.Running, runEntry{I: i, P: o.Started[i]})
		}
		evs = append(evs, e)
	}
	return evs, ""
}

func init() {
	hx.Register("rc-replay", func(args []string) {
		fs := flag.NewFlagSet("rc-replay", flag.ExitOnError)
		neg := fs.Bool("negative", false, "corrupt one expected value per behaviour (negative control)")
		workers := fs.Int("workers", 4, "behaviours executed in parallel")
		keep := fs.Bool("keeploggers", false, "call Update with a background context (keeps the manager's error-logging goroutines: race probe)")
		fs.Parse(args)
		keepErrorLoggers = *keep
		Replay(os.Stdin, os.Stdout, *neg, *workers)
	})
	hx.Register("rc-drive", func(args []string) {
		fs := flag.NewFlagSet("rc-drive", flag.ExitOnError)
		seed := fs.Uint64("seed", 1, "seed")
		managers := fs.Int("managers", 20, "fresh managers per history")
		maxLen := fs.Int("maxlen", 2, "maximum history length")
		maxHist := fs.Int("histories", 40, "maximum number of histories")
		workers := fs.Int("workers", 4, "managers driven in parallel")
		fs.Parse(args)
		Drive(os.Stdin, os.Stdout, *seed, *managers, *maxLen, *maxHist, *workers)
	})
}
