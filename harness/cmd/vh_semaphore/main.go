// vh_semaphore is the harness binary of the semaphore family (C31).
package main

import (
	"verifharness/internal/hx"
	_ "verifharness/internal/semaphore"
)

func main() { hx.Main() }
