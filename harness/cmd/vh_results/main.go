// vh_results is the harness binary of the results family (C13 time binning, C14 ordering).
package main

import (
	"verifharness/internal/hx"
	_ "verifharness/internal/results"
)

func main() { hx.Main() }
