// vh_pauselock is the harness binary of the pauselock family (C21).
package main

import (
	"verifharness/internal/hx"
	_ "verifharness/internal/pauselock"
)

func main() { hx.Main() }
