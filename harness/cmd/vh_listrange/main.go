// vh_listrange is the harness binary of the listrange family (property C12).
package main

import (
	"verifharness/internal/hx"
	_ "verifharness/internal/listrange"
)

func main() { hx.Main() }
