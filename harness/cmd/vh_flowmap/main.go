// vh_flowmap is the harness binary of the flowmap family (one binary per family so that families
// build independently of each other).
package main

import (
	_ "verifharness/internal/flowmap"
	"verifharness/internal/hx"
)

func main() { hx.Main() }
