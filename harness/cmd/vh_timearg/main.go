// vh_timearg is the harness binary of the timearg family (one binary per family so that families
// build independently of each other).
package main

import (
	_ "verifharness/internal/timearg"
	"verifharness/internal/hx"
)

func main() { hx.Main() }
