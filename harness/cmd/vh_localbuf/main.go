// vh_localbuf is the harness binary of the localbuf family (property C23).
package main

import (
	"verifharness/internal/hx"
	_ "verifharness/internal/localbuf"
)

func main() { hx.Main() }
