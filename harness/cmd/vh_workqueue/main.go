// vh_workqueue is the harness binary of the workqueue family (property C11).
package main

import (
	"verifharness/internal/hx"
	_ "verifharness/internal/workqueue"
)

func main() { hx.Main() }
