// vh_merge is the harness binary of the merge family (C24).
package main

import (
	"verifharness/internal/hx"
	_ "verifharness/internal/merge"
)

func main() { hx.Main() }
