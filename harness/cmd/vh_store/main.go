// vh_store is the harness binary of the storage family (GPStore.tla): write-out child (run under
// strace), observer, and in-process replay of TLC-generated write histories.
package main

import (
	"verifharness/internal/hx"
	_ "verifharness/internal/store"
)

func main() { hx.Main() }
