// vh_codec is the harness binary of the codec family (C07 encoder round trip, C02 build interchange).
// It is built once per build configuration (cgo / CGO_ENABLED=0 / goprobe_noliblz4 / goprobe_nolibzstd).
package main

import (
	_ "verifharness/internal/codec"
	"verifharness/internal/hx"
)

func main() { hx.Main() }
