// vh_flowlog is the harness binary of the flowlog family (C20).
package main

import (
	_ "verifharness/internal/flowlog"
	"verifharness/internal/hx"
)

func main() { hx.Main() }
