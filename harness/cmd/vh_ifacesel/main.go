// vh_ifacesel is the harness binary of the ifacesel family (one binary per family so that families
// build independently of each other).
package main

import (
	_ "verifharness/internal/ifacesel"
	"verifharness/internal/hx"
)

func main() { hx.Main() }
