package main

import _ "verifharness/internal/flowmap"
