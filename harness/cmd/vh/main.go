// vh is the single harness binary of the goProbe verification machinery. Each sub-command
// binds one TLA+ specification family to the real code (replay of TLC behaviours, or
// recording of implementation traces for TLC to validate).
package main

import (
	"flag"
	"fmt"
	"os"

	"verifharness/internal/flowmap"
)

func usage() {
	fmt.Fprintln(os.Stderr, "usage: vh <family-command> [flags]")
	os.Exit(2)
}

func main() {
	if len(os.Args) < 2 {
		usage()
	}
	cmd, args := os.Args[1], os.Args[2:]
	fs := flag.NewFlagSet(cmd, flag.ExitOnError)
	seed := fs.Uint64("seed", 1, "seed")
	switch cmd {
	case "flowmap-replay":
		fs.Parse(args)
		flowmap.Replay(*seed, os.Stdin, os.Stdout)
	case "flowmap-drive":
		traces := fs.Int("traces", 4, "traces")
		ops := fs.Int("ops", 2000, "ops per trace")
		keys := fs.Int("keys", 200, "distinct keys")
		fs.Parse(args)
		flowmap.Drive(*seed, *traces, *ops, *keys, os.Stdout)
	default:
		usage()
	}
}
