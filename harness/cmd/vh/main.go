// vh is the single harness binary of the goProbe verification machinery. Each sub-command
// binds one TLA+ specification family to the real code (replay of TLC behaviours, or
// recording of implementation traces for TLC to validate). Families register their
// sub-commands in init(); cmd/vh/reg_<family>.go imports the family package.
package main

import (
	"fmt"
	"os"
	"sort"

	"verifharness/internal/hx"
)

func main() {
	if len(os.Args) < 2 {
		n := hx.Names()
		sort.Strings(n)
		fmt.Fprintln(os.Stderr, "usage: vh <command> [flags]; commands:", n)
		os.Exit(2)
	}
	c, ok := hx.Lookup(os.Args[1])
	if !ok {
		fmt.Fprintln(os.Stderr, "vh: unknown command", os.Args[1])
		os.Exit(2)
	}
	c(os.Args[2:])
}
