// vh_hostmerge is the harness binary of the hostmerge family (C15).
package main

import (
	_ "verifharness/internal/hostmerge"
	"verifharness/internal/hx"
)

func main() { hx.Main() }
