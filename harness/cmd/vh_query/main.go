// vh_query is the harness binary of the query family (property C08).
package main

import (
	"verifharness/internal/hx"
	_ "verifharness/internal/query"
)

func main() { hx.Main() }
