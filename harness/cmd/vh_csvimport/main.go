// vh_csvimport is the harness binary of the csvimport family (C26).
package main

import (
	_ "verifharness/internal/csvimport"
	"verifharness/internal/hx"
)

func main() { hx.Main() }
