// vh_packet is the harness binary of the packet family (C19 packet parsing, C22 flow orientation).
package main

import (
	"verifharness/internal/hx"
	_ "verifharness/internal/packet"
)

func main() { hx.Main() }
