// vh_livequery is the harness binary of the livequery family (property C29).
package main

import (
	"verifharness/internal/hx"
	_ "verifharness/internal/livequery"
)

func main() { hx.Main() }
