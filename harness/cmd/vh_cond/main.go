// vh_cond is the harness binary of the cond family (C09 conditions, C10 condition syntax).
package main

import (
	_ "verifharness/internal/cond"
	"verifharness/internal/hx"
)

func main() { hx.Main() }
