// vh_enums is the harness binary of the enums family (one binary per family so that families
// build independently of each other).
package main

import (
	_ "verifharness/internal/enums"
	"verifharness/internal/hx"
)

func main() { hx.Main() }
