// vh_reconfig is the harness binary of the reconfig family (property C27).
package main

import (
	"verifharness/internal/hx"
	_ "verifharness/internal/reconfig"
)

func main() { hx.Main() }
