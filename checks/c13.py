"""C13 - time binning conserves traffic and yields one aligned row per bin.

M  BinningMC: the design (group by (bin end, labels, attributes), add the counters; bin end =
   ceil(ts/b)*b; automatic bin size = finest multiple of 300 s with at most 288 bins) explored
   exhaustively: conservation per step and from load, one row per key, labels at the end of the
   containing bin, idempotence, step-wise coarsening = direct binning, automatic size admissible
   and minimal.  Negative model run: labelling with the start of the bin violates LabelOK.
F  BinningGen: every multiset of <=3 (thorough 4) rows of a 12-row universe (time labels on / just
   before / just after the edges of 300, 600, 900, 3600 s, equal instants in two zones, rows that
   differ in one label or in the address family) x every bin size is run through
   Args.Prepare + Statement.PostProcess twice; Result.Rows compared with the specification's
   rows as a multiset after each call.
B  BinningTrace: seeded results of up to 120 (thorough 200) rows are binned through prepared
   statements (explicit sizes, "auto", a second coarser statement), the automatic bin size is
   taken from results.CalcTimeBinSize and from Args.Prepare for a grid and thousands of seeded
   durations; TLC validates every logged event against Binning.
"""
import json
import os
import subprocess
import vlib

MANIFEST = {
    "level": "model_checking",
    "technique": "TLA+ spec Binning: TLC exhaustive + TLC-generated cases replayed on Args.Prepare/Statement.PostProcess "
                 "+ TLC trace validation of seeded binning runs and automatic bin sizes",
    "text": "Binning.tla defines re-binning as grouping by (end of the containing bin, labels, attributes) with summed counters "
            "and the automatic bin size as a positive multiple of 300 s with at most 288 bins; TLC proves conservation, "
            "one-row-per-key, alignment, idempotence and coarsening on the bounded model, every generated (rows, bin size) case is "
            "executed twice on Statement.PostProcess and compared row by row, and seeded runs with up to 200 rows and thousands of "
            "query durations are accepted by TLC as behaviours of the spec.",
    "note": "Rows are compared with the time label as an instant (zone ignored). For a bin size of 5 min (not coarser than the native "
            "resolution) only valid 5-minute results are generated. Durations are whole seconds (Statement.First/Last are Unix "
            "seconds); time labels are positive Unix seconds below 2^31.",
    "ref": "6.4",
}

ACTIONS = ("Load", "PostProcess", "ChooseBin", "PostProcessAuto", "Deliver")


def _nontrivial(case):
    exp = case["steps"][0]["exp"]
    return len(exp) < len(case["rows"]) or sorted(r["ts"] for r in exp) != sorted(r["ts"] for r in case["rows"])


def main():
    run = vlib.Run("C13", "model_checking")
    thorough = run.tier == "thorough"
    vh = vlib.build_vh("results")
    found = {}      # descriptor json -> (descriptor, replay, count)

    def report(desc, replay):
        k = json.dumps(desc, sort_keys=True)
        if k in found:
            found[k][2] += 1
        else:
            found[k] = [desc, replay, 1]

    with vlib.Scratch("verif-c13-") as sc:
        # ---------------------------------------------------------------- M
        r = vlib.tlc("results", "BinningMC", "BinningMC.cfg", coverage=True, scratch=sc, timeout=900,
                     consts="CONSTANT MaxRows = %d" % (3 if thorough else 2))
        vlib.expect_tlc_ok(r, "BinningMC")
        if r.violation:
            raise vlib.MachineryError("Binning design violates %s (spec error, not a code verdict)\n%s"
                                      % (r.violation, "\n".join(r.cex[:60])))
        for a in ACTIONS:
            vlib.require(r.coverage.get(a, (0, 0))[0] > 0, "vacuous: action %s never taken" % a)
        run.add_tlc(r, "BinningMC")
        neg = vlib.tlc("results", "BinningMC", "BinningMCNeg.cfg", scratch=sc, timeout=300)
        vlib.require(neg.violation == "LabelOK", "model negative control: bin-start labelling did not violate LabelOK (%s / %s)"
                     % (neg.violation, neg.error))
        run.cov["model_negative_control"] = "BinEnd <- floor: LabelOK violated"

        # ---------------------------------------------------------------- F
        g = vlib.tlc("results", "BinningGen", "BinningGen.cfg", scratch=sc, timeout=900,
                     consts="CONSTANT MaxRows = %d" % (4 if thorough else 3))
        vlib.expect_tlc_ok(g, "BinningGen")
        vlib.require(len(g.traces) > 1000, "generator produced too few cases (%d)" % len(g.traces))
        run.add_tlc(g, "BinningGen")
        cases = g.traces
        # negative control: one expected counter off by one must be rejected by the replay
        ctl = json.loads(json.dumps(next(c for c in cases if _nontrivial(c))))
        ctl["steps"][0]["exp"][0]["br"] += 1
        lines = [json.dumps(c, separators=(",", ":")) for c in cases] + [json.dumps(ctl, separators=(",", ":"))]
        rc, outs, _ = vlib.run_vh(vh, ["bin-replay"], stdin_lines=lines, timeout=1200)
        summ = [o for o in outs if o.get("summary")]
        vlib.require(summ and summ[0]["behaviours"] == len(lines), "bin-replay did not process all cases")
        fails = [o for o in outs if o.get("ok") is False]
        vlib.require(any(o["id"] == len(lines) - 1 for o in fails), "negative control: corrupted expectation was accepted by bin-replay")
        fails = [o for o in fails if o["id"] != len(lines) - 1]
        run.count(summ[0]["steps"])
        run.cov["traces_validated_against_impl"] += len(cases)
        nontriv = 0
        for c in cases:
            if _nontrivial(c):
                nontriv += 1
                run.distinct(json.dumps([c["rows"], c["b"]], sort_keys=True))
        run.cov["forward_cases"] = len(cases)
        run.cov["forward_cases_merging_or_moving_rows"] = nontriv
        run.sample({"kind": "forward case", "b": cases[len(cases) // 2]["b"],
                    "rows": [(x["ts"], x["zone"], x["iface"], x["hostid"]) for x in cases[len(cases) // 2]["rows"]],
                    "exp": [(x["ts"], x["br"], x["bs"]) for x in cases[len(cases) // 2]["steps"][0]["exp"]]})
        for o in fails:
            report(o["desc"], {"kind": "bin-replay", "behaviour": o.get("behaviour"), "step": o.get("step"),
                               "msg": o.get("msg", "")[:3000]})

        # ---------------------------------------------------------------- B
        ncases, maxrows, ndur = (60, 200, 20000) if thorough else (14, 120, 3000)
        tfile = os.path.join(sc, "trace.ndjson")
        with open(tfile, "w") as fh:
            p = subprocess.run([vh, "bin-drive", "-seed", str(run.seed), "-cases", str(ncases), "-maxrows", str(maxrows),
                                "-durations", str(ndur)], stdout=fh, stderr=subprocess.PIPE, text=True)
        cmd = "vh_results bin-drive -seed %d -cases %d -maxrows %d -durations %d" % (run.seed, ncases, maxrows, ndur)
        if p.returncode != 0:
            if "PANIC" in p.stderr or "panic" in p.stderr:
                report({"binding": "B", "rule": "panic"}, {"kind": "bin-drive", "cmd": cmd, "stderr": p.stderr[-3000:]})
            else:
                raise vlib.MachineryError("bin-drive failed: " + p.stderr[-2000:])
        else:
            lines = open(tfile).read().splitlines()
            evs = [json.loads(x) for x in lines]
            # negative controls appended as cases tr = -1 / -2: a time label moved by one bin, an inadmissible automatic size
            pp = next(e for e in evs if e["ev"] == "PostProcess" and len(e["out"]) > 1)
            load = [e for e in evs if e["tr"] == pp["tr"] and e["ev"] == "Load"][0]
            bad_pp = json.loads(json.dumps(pp)); bad_pp["out"][0]["ts"] += pp["b"]
            ctl = [dict(load, tr=-1), dict(bad_pp, tr=-1), {"tr": -1, "ev": "Deliver", "d": 0, "b": 0, "rem": 0, "rows": [], "out": []},
                   {"tr": -2, "ev": "ChooseBin", "d": 90000, "b": 300, "rem": 0, "rows": [], "out": []}]
            allines = lines + [json.dumps(e, separators=(",", ":")) for e in ctl]
            t = vlib.tlc("results", "BinningTrace", "BinningTrace.cfg", workers=1,
                         files={"trace.ndjson": "\n".join(allines) + "\n"}, scratch=sc, timeout=2400, heap="12g")
            if t.error or t.violation:
                raise vlib.MachineryError("BinningTrace did not consume the trace: %s %s\n%s" % (t.error, t.violation, t.stdout[-2500:]))
            run.add_tlc(t, "BinningTrace")
            mm = [m for m in t.mismatches if isinstance(m, dict)]
            vlib.require({-1, -2} <= {m.get("tr") for m in mm}, "negative control: corrupted trace events were accepted by TLC")
            run.cov["negative_control"] = "forward: expected counter +1 rejected; trace: time label moved by one bin and " \
                                          "automatic size 300 s for 90000 s rejected"
            run.count(len(lines))
            nauto = sum(1 for e in evs if e["ev"] == "ChooseBin")
            npost = sum(1 for e in evs if e["ev"] == "PostProcess")
            run.cov["trace_events"] = len(lines)
            run.cov["auto_bin_sizes_validated"] = nauto
            run.cov["postprocess_calls_validated"] = npost
            run.cov["max_rows_in_trace"] = max(len(e["rows"]) for e in evs)
            run.cov["traces_validated_against_impl"] += len({e["tr"] for e in evs if e["ev"] == "Load"})
            for e in evs:
                if e["ev"] == "ChooseBin":
                    run.distinct("auto/%d" % e["d"])
            run.sample({"kind": "trace event", "event": {k: v for k, v in next(e for e in evs if e["ev"] == "ChooseBin" and e["d"] > 86400).items()
                                                         if k in ("ev", "d", "b", "via")}})
            seen_tr = set()
            for m in mm:
                tr = m.get("tr")
                if tr in (-1, -2) or tr in seen_tr:
                    continue
                seen_tr.add(tr)
                desc = {"binding": "B", "rule": m.get("rule")}
                report(desc, {"kind": "bin-trace", "cmd": cmd, "model": m,
                              "events": [e for e in evs if e["tr"] == tr][:6]})
    for desc, replay, n in found.values():
        replay["cases_with_this_descriptor"] = n
        run.violation(desc, replay)
    run.cov["rule"] = ("F: all multisets of <=%d rows of a 12-row universe x bin sizes {300 (native results only), 600, 900, 3600}; "
                       "distinct = cases in which rows merge or a time label moves; B: seeded results of up to %d rows, "
                       "%d query durations (distinct durations counted)" % (4 if thorough else 3, maxrows, ndur))
    run.assumptions += ["time labels are compared as instants; the zone a label is presented in is not judged",
                        "bin size 300 s (= native resolution) is exercised only on valid 5-minute results (aligned, one row per key)",
                        "durations are whole seconds, as in Statement.First/Last; sub-second durations are not reachable through the query API",
                        "per-group sums are demanded (the natural reading of 'preserves the sum of every counter' together with one row per key)",
                        "time labels are positive Unix seconds below 2^31 (TLC integers); counters small enough that sums stay below 2^31"]
    return run.finish()


def replay(path):
    d = json.load(open(path))["replay"]
    vh = vlib.build_vh("results")
    if d["kind"] == "bin-replay":
        rc, outs, _ = vlib.run_vh(vh, ["bin-replay"], stdin_lines=[json.dumps(d["behaviour"])])
        bad = [o for o in outs if o.get("ok") is False]
        print(json.dumps(bad or outs, indent=1)[:4000])
        return 1 if bad else 0
    print("re-run: " + d.get("cmd", "./check C13"))
    return 2
