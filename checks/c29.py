"""C29 - live queries see current flows with the same semantics and change nothing.

M  LiveQueryMC: packets, write-outs and live queries in every order on two interfaces; the action
   property LiveChangesNothing, the twin-run invariant TwinOK and the laws of the definition
   (live = stored + memory, grouping = regrouping the full answer, write-outs keep live answers,
   an unconditional live query accounts for every packet) hold; the negative run (a live snapshot
   that resets the counters) must violate them.
F  LiveQueryGen: schedules from the specification - live queries at every position of all
   packet/write-out sequences of a given length, long schedules with one live query per condition
   tree (all flows of both IP families in memory and on disk, non byte-aligned networks), pseudo-
   random schedules per seed - are executed on a real capture.Manager (scripted capture sources,
   write-outs of the manager's own schedule released one at a time), a real goDB and
   engine.NewQueryRunner(db, WithLiveData(manager)) with Args.Live.  Per step: in-memory flows,
   database blocks, live rows (stored part, in-memory part, total) against the specification.
   Every schedule is also run without its live queries (twin run).
"""
import collections
import concurrent.futures
import json
import os
import vlib

MANIFEST = {
    "level": "model_checking",
    "technique": "TLA+ spec LiveQuery: TLC exhaustive (action property + twin-run invariant + algebraic laws) and "
                 "TLC-generated schedules replayed on capture.Manager + goDB + query engine with per-step comparison and a twin run",
    "text": "LiveQuery.tla defines Live(q) = Stored(q) (+) Group(Filter(Aggregate(log), cond)) with the same Filter/Group operators as "
            "the stored query and states that a LiveQuery step leaves memory and database unchanged (action property, twin-run invariant); "
            "TLC checks this and the laws of the definition exhaustively on a small model. TLC-generated schedules (live queries at every "
            "position between packets and write-outs, one live query per condition tree over 24 flows of both IP families incl. non "
            "byte-aligned networks, seeded pseudo-random schedules) run on the real capture manager, write-out path and query engine; "
            "rows, in-memory flows and database blocks are compared with the specification after every step and with a twin run "
            "without live queries.",
    "note": "Packets are TCP SYN, UDP from an ephemeral port, ICMP echo request (orientation in the packet) and TCP segments without SYN "
            "(orientation only in the capture's memory: idle entries are modelled and compared); every interface has had its first write-out (the query front end lists interfaces from the database); the time "
            "attribute and direction filters are not part of the queries; the stored part of an answer is owned by C08/C09 - the live "
            "part is judged relative to what the ordinary query returns. Trusts the scripted source, the gated write-out handler and "
            "reading the database back through an unconditional query.",
    "ref": "6.6",
}

FAMILY = "livequery"


def _tlc_jobs(sc, jobs):
    """run TLC jobs {name: (module, cfg, kwargs)} concurrently, each in its own scratch sub-directory"""
    def one(item):
        name, (module, cfg, kw) = item
        d = os.path.join(sc, "tlc-" + name.replace("/", "-"))
        os.makedirs(d, exist_ok=True)
        return name, vlib.tlc(FAMILY, module, cfg, scratch=d, workers=4, **kw)
    with concurrent.futures.ThreadPoolExecutor(max_workers=4) as ex:
        return dict(ex.map(one, jobs.items()))


def _gen_job(genset, extra="", timeout=2400):
    return ("LiveQueryGen", "LiveQueryGen.cfg", {"timeout": timeout, "consts": 'CONSTANT GenSet = "%s"\n%s' % (genset, extra)})


def _gen_ok(run, g, genset):
    vlib.expect_tlc_ok(g, "LiveQueryGen/" + genset)
    vlib.require(g.traces and g.infos, "LiveQueryGen/%s printed no behaviours" % genset)
    run.add_tlc(g, "LiveQueryGen/" + genset)
    return g


_TMP = {}   # the harness creates its databases under the check's scratch directory


def _replay_once(vh, universe, behs, negative, workers):
    args = ["lq-replay", "-workers", str(workers)] + (["-negative"] if negative else [])
    lines = [json.dumps(universe, separators=(",", ":"))] + [json.dumps(b, separators=(",", ":")) for b in behs]
    rc, outs, err = vlib.run_vh(vh, args, stdin_lines=lines, timeout=3000, check=False, env_extra=_TMP)
    crashed = rc != 0 and ("panic:" in err or "fatal error:" in err or "goroutine " in err)
    if rc != 0 and not crashed:
        raise vlib.MachineryError("lq-replay failed rc=%s\nstderr: %s" % (rc, err[-3000:]))
    return crashed, outs, err


def _replay(vh, universe, behs, negative=False, workers=8):
    """replay behaviours; returns (output lines with 'id' = index into behs, merged summary, crashes).
    The code under test runs parts of a query on goroutines of its own: a panic there kills the harness
    process.  Such a crash is bisected down to single behaviours (reported by the caller), the rest is
    replayed normally."""
    outs_all, crashes = [], []
    summ = collections.Counter()
    notes = []
    work = [(0, len(behs))]
    while work:
        lo, hi = work.pop()
        crashed, outs, err = _replay_once(vh, universe, behs[lo:hi], negative, workers)
        if crashed:
            if hi - lo == 1 or len(crashes) >= 3:
                crashes.append((lo, err))
            else:
                mid = (lo + hi) // 2
                work += [(mid, hi), (lo, mid)]
            continue
        s = [o for o in outs if o.get("summary")]
        vlib.require(s and s[0]["behaviours"] == hi - lo, "replay did not process all behaviours")
        for k, v in s[0].items():
            if isinstance(v, int) and not isinstance(v, bool):
                summ[k] += v
        notes += s[0].get("stored_part_notes") or []
        for o in outs:
            if "id" in o:
                o["id"] += lo
                outs_all.append(o)
    res = dict(summ)
    res["stored_part_notes"] = notes[:5]
    return outs_all, res, crashes


def main():
    run = vlib.Run("C29", "model_checking")
    thorough = run.tier == "thorough"
    vh = vlib.build_vh(FAMILY)
    with vlib.Scratch("verif-c29-") as sc:
        _TMP["TMPDIR"] = sc
        sets = [("pos4" if thorough else "pos3", ""),
                ("orient5" if thorough else "orient4", ""),
                ("cond-thorough" if thorough else "cond-quick", "CONSTANT ChunkSize = %d" % (100 if thorough else 20)),
                ("rand", "CONSTANT Seed = %d\nCONSTANT NRand = %d\nCONSTANT Depth = %d" %
                 (run.seed, 200 if thorough else 40, 40 if thorough else 30))]
        if thorough:
            sets.insert(2, ("orient6x4", ""))
        jobs = {"mc-cov": ("LiveQueryMC", "LiveQueryMC.cfg", {"coverage": True, "timeout": 900, "consts": "CONSTANT MaxPackets = 2"}),
                "mc": ("LiveQueryMC", "LiveQueryMC.cfg", {"timeout": 1500, "consts": "CONSTANT MaxPackets = %d" % (4 if thorough else 3)}),
                "mc-neg": ("LiveQueryMC", "LiveQueryMCNeg.cfg", {"timeout": 900, "consts": "CONSTANT MaxPackets = 3"}),
                "mc-neg-idle": ("LiveQueryMC", "LiveQueryMCNegIdle.cfg", {"timeout": 900, "consts": "CONSTANT MaxPackets = 3"})}
        for gs, extra in sets:
            jobs["gen-" + gs] = _gen_job(gs, extra)
        res = _tlc_jobs(sc, jobs)

        # ---- M: the design, exhaustively; vacuity guard via coverage on the smallest bound
        cov = res["mc-cov"]
        vlib.expect_tlc_ok(cov, "LiveQueryMC (coverage)")
        if cov.violation:
            raise vlib.MachineryError("LiveQuery design violates %s (spec error, not a code verdict)" % cov.violation)
        for a in ("Packet", "Writeout", "LiveQuery"):
            vlib.require(cov.coverage.get(a, (0, 0))[1] > 0, "vacuous: action %s never taken" % a)
        run.add_tlc(cov, "LiveQueryMC/coverage")
        m = res["mc"]
        vlib.expect_tlc_ok(m, "LiveQueryMC")
        if m.violation:
            raise vlib.MachineryError("LiveQuery design violates %s (spec error, not a code verdict)" % m.violation)
        run.add_tlc(m, "LiveQueryMC")
        neg = res["mc-neg"]
        vlib.require(neg.violation in ("TwinOK", "LiveChangesNothing"),
                     "negative model run (live snapshot resets the counters) was not rejected: %s %s" % (neg.violation, neg.error))
        run.cov["negative_model_run"] = "LiveResets=TRUE violates %s" % neg.violation
        negi = res["mc-neg-idle"]
        vlib.require(negi.violation in ("TwinOK", "LiveChangesNothing"),
                     "negative model run (live snapshot frees idle entries) was not rejected: %s %s" % (negi.violation, negi.error))
        run.cov["negative_model_run_idle"] = "LiveDropsIdle=TRUE violates %s" % negi.violation

        # ---- F: schedules from the specification on the real manager / database / query engine
        universe = None
        behs = []
        for gs, extra in sets:
            g = _gen_ok(run, res["gen-" + gs], gs)
            universe = g.infos[0]
            behs += g.traces
            run.cov.setdefault("behaviours_per_family", {})[gs] = len(g.traces)
        outs, summ, crashes = _replay(vh, universe, behs)
        for at, err in crashes:
            i = err.find("panic:")
            run.violation({"cls": "query-panics", "binding": "F"},
                          {"kind": "lq-replay", "universe": universe, "behaviour": behs[at],
                           "msg": "the query engine panicked on a goroutine of its own while this schedule was executed "
                                  "(harness process died): " + err[max(i, 0):][:3000]})
        run.count(summ["steps"])
        run.cov["traces_validated_against_impl"] += 2 * len(behs)
        run.cov["live_queries_compared"] = summ["live_queries"]
        run.cov["packets_injected"] = summ["packets"]
        run.cov["writeouts_performed"] = summ["writeouts"]
        run.cov["database_read_backs"] = summ["db_reads"]
        run.cov["stored_part_differs_from_spec"] = summ["stored_part_differs"]
        if summ["stored_part_differs"]:
            run.note("the ordinary (non-live) query differed from the specification's stored part for %d queries (owned by C08/C09, "
                     "not judged here; live rows were judged relative to it), e.g. %s" %
                     (summ["stored_part_differs"], (summ.get("stored_part_notes") or [""])[0][:300]))
        vlib.require(summ["live_queries"] > 200 and summ["writeouts"] > 100, "replay exercised too little")
        for b in behs:
            for s in b:
                if s["act"]["name"] == "LiveQuery":
                    q = s["act"]["q"]
                    run.distinct(json.dumps([q, s["exp"]["mem"], s["exp"]["db"]], sort_keys=True))
        run.sample({"kind": "schedule", "steps": [s["act"]["name"] for s in behs[len(behs) // 3]][:12]})
        lq = [s for s in behs[-1] if s["act"]["name"] == "LiveQuery"]
        if lq:
            run.sample({"kind": "live query step", "q": lq[0]["act"]["q"], "expected_rows": len(lq[0]["exp"]["res"]["total"])})
        drift = [o for o in outs if o.get("drift")]
        for d in drift:
            run.drift.append({"behaviour": d["id"], "step": d["step"], "msg": d["msg"][:400]})
        classes = collections.Counter()
        first, rest, seen = [], [], set()
        for o in outs:
            if o.get("ok") is False:
                classes[o["desc"].get("cls")] += 1
                k = (o["desc"].get("cls"), o["desc"].get("kind"))
                (rest if k in seen else first).append(o)
                seen.add(k)
        for o in first + rest:   # one representative of every class first
            run.violation(o["desc"], {"kind": "lq-replay", "universe": universe, "behaviour": o.get("behaviour"),
                                      "step": o.get("step"), "msg": o.get("msg", "")[:2000]})
        if classes:
            run.cov["failing_steps_by_class"] = dict(classes)

        # ---- negative control: one expected live row corrupted per behaviour must be rejected
        negset = res["gen-" + sets[0][0]].traces[:40]
        nouts, nsumm, ncrashes = _replay(vh, universe, negset, negative=True)
        vlib.require(not ncrashes, "negative control crashed")
        rejected = {o["id"] for o in nouts if o.get("ok") is False and o["desc"].get("cls") == "live-rows-differ"}
        vlib.require(len(rejected) == len(negset),
                     "negative control: %d of %d behaviours with a corrupted expected live row were accepted" %
                     (len(negset) - len(rejected), len(negset)))
        run.cov["negative_control"] = "%d/%d behaviours with one corrupted expected live row rejected" % (len(rejected), len(negset))

    run.cov["rule"] = ("distinct = distinct (live query, in-memory flows, database) triples compared; F covers all sequences of length "
                       "%d over {3 packets + 1 on the second interface, write-out, 2 live queries} with a live query, all sequences of length "
                       "%d over {handshake and two later segments of a conversation between ephemeral ports, write-out, live query}, one live query per "
                       "condition tree of the %s set (all attributes, attribute subsets for a core set) and %d seeded pseudo-random "
                       "schedules" % (4 if thorough else 3, 5 if thorough else 4, "thorough" if thorough else "quick", 200 if thorough else 40))
    run.assumptions += [
        "every interface has had its first (empty) write-out before the first live query: the query front end lists interfaces from the database",
        "packets sent by the client side only: TCP SYN, UDP from an ephemeral port, ICMP echo request, portless protocols, and TCP segments without SYN (between two ephemeral ports and towards service ports)",
        "queries group by subsets of sip,dip,dport,proto without the time attribute and without direction filters",
        "the stored part of an answer is the ordinary query (C08/C09); the live part is judged as live answer minus ordinary answer",
        "database blocks without rows are not distinguished from absent blocks (read back through a time,sip,dip,dport,proto query)",
        "write-outs rotate all interfaces atomically with respect to packets (the harness does not inject during a write-out)",
    ]
    return run.finish()


def replay(path):
    d = json.load(open(path))["replay"]
    vh = vlib.build_vh(FAMILY)
    _TMP.clear()
    outs, summ, crashes = _replay(vh, d["universe"], [d["behaviour"]], workers=1)
    for at, err in crashes:
        print("harness process died:\n" + err[-3000:])
    bad = [o for o in outs if o.get("ok") is False or o.get("drift")] or crashes
    for o in bad or outs:
        o.pop("behaviour", None)
        print(json.dumps(o, indent=1)[:3000])
    return 1 if bad else 0
