"""C17 - query arguments, statements and results survive JSON round trips; enumerations map to their names and back.

M  EnumsMC: the documented enumerations (Direction, SortOrder, Status, Format) with Name/FromName tables, the law
   FromName[Name[v]] = v, the record shapes Args / Statement / Result / Row with the wire law Unwire(Wire(r)) = r,
   explored for every member and every record with at most two non-default fields (pairwise coverage).
F  EnumsGen: every step (ToName, OfName, EnumJSON, RecordJSON x {encoding/json, jsoniter} x {value, pointer}) is
   executed on the real types: String()/FromString, Marshal -> Unmarshal into a fresh value, projection back to the
   abstract record and comparison with the specification's expectation, field by field.
"""
import json
import random
import vlib

MANIFEST = {
    "level": "exploration",
    "technique": "TLA+ spec Enums: name tables and round-trip laws checked by TLC; TLC-enumerated members and pairwise "
                 "(thorough: 3-wise for Row/Statement) records replayed through encoding/json and jsoniter, by value and by pointer",
    "text": "Enums.tla holds the documented enumerations with Name/FromName and the law FromName[Name[v]] = v plus the record "
            "shapes of Args, Statement, Result and Row over small class domains; every TLC case is marshalled and unmarshalled "
            "with both codecs (value and pointer) on the real Go types and the decoded value is projected back and compared.",
    "note": "Thinnest use of the technique: the JSON codecs are exercised, not modelled; record coverage is pairwise over "
            "class domains (counters 0/1/1000/2^53+1/2^64-1, five time classes, six address classes), enumerations complete. "
            "Time labels are compared by instant; nil and empty lists are equivalent.",
    "ref": "6.4",
}


def _replay(vh, cases):
    rc, outs, _ = vlib.run_vh(vh, ["enums-replay"], stdin_lines=[json.dumps(b, separators=(",", ":")) for b in cases],
                              timeout=1500)
    summ = [o for o in outs if o.get("summary")]
    vlib.require(summ and summ[0]["behaviours"] == len(cases), "enums-replay did not process all cases")
    return [o for o in outs if o.get("ok") is False], summ[0]


def main():
    run = vlib.Run("C17", "exploration")
    thorough = run.tier == "thorough"
    vh = vlib.build_vh("enums")
    with vlib.Scratch("verif-c17-") as sc:
        # ---- M: tables and laws
        r = vlib.tlc("enums", "EnumsMC", "EnumsMC.cfg", coverage=True, scratch=sc, timeout=600)
        vlib.expect_tlc_ok(r, "EnumsMC")
        if r.violation:
            raise vlib.MachineryError("Enums tables violate %s (spec error, not a code verdict)" % r.violation)
        for a in ("MCToName", "MCOfName", "MCEnumJSON", "MCRecordJSON"):
            vlib.require(r.coverage.get(a, (0, 0))[0] > 0, "vacuous: action %s never taken" % a)
        run.add_tlc(r, "EnumsMC")

        # ---- F: every member, every record of the covering sets
        g = vlib.tlc("enums", "EnumsGen", "EnumsGen.cfg", scratch=sc, timeout=1200, heap="12g",
                     consts='CONSTANT Strength3 = {"Row", "Statement"}' if thorough else None)
        vlib.expect_tlc_ok(g, "EnumsGen")
        cases = g.traces
        run.add_tlc(g, "EnumsGen")
        per = {}
        for b in cases:
            a = b[0]["act"]
            per[a["name"] + ("/" + a["shape"] if "shape" in a else "")] = per.get(a["name"] + ("/" + a["shape"] if "shape" in a else ""), 0) + 1
        vlib.require(per.get("ToName") == 18 and per.get("OfName") == 9 and per.get("EnumJSON") == 72,
                     "generator did not enumerate every enumeration member: %s" % per)
        for s in ("Args", "Statement", "Result", "Row"):
            vlib.require(per.get("RecordJSON/" + s, 0) > 2000, "too few %s records generated" % s)
        fails, summ = _replay(vh, cases)
        run.count(summ["steps"])
        run.cov["traces_validated_against_impl"] += len(cases)
        run.cov["cases_per_action"] = per
        run.cov["wire_form_differs_from_documented_names"] = summ.get("wire_form_differs", 0)
        for b in cases:
            a = dict(b[0]["act"])
            a.pop("codec", None), a.pop("mode", None)
            run.distinct(json.dumps(a, sort_keys=True))
        run.sample({"kind": "TLC case", "act": {k: v for k, v in cases[3][0]["act"].items()}, "exp": cases[3][0]["exp"]})
        mid = next(b for b in cases[len(cases) // 2:] if b[0]["act"]["name"] == "RecordJSON")
        run.sample({"kind": "TLC case", "shape": mid[0]["act"]["shape"], "codec": mid[0]["act"]["codec"], "mode": mid[0]["act"]["mode"],
                    "non_default": "see rec", "rec": mid[0]["act"]["rec"]})

        groups = {}
        for o in fails:
            groups.setdefault(json.dumps(o["desc"], sort_keys=True), []).append(o)
        for key in sorted(groups):
            os_ = groups[key]
            first = min(os_, key=lambda o: len(json.dumps(o["behaviour"])))
            run.violation(first["desc"], {"kind": "enums-replay", "cases": len(os_), "msg": first["msg"][:1500],
                                          "document": first.get("doc", "")[:1500], "behaviour": first["behaviour"]})

        # ---- negative control: a corrupted expectation must be rejected by the binding
        failing = {json.dumps(o["behaviour"], sort_keys=True) for o in fails}
        good = [b for b in cases if json.dumps(b, sort_keys=True) not in failing]
        rng = random.Random(1000 + run.seed)
        bad = []
        recs = [b for b in good if b[0]["act"]["name"] == "RecordJSON"]
        for b in rng.sample(recs, 12):
            c = json.loads(json.dumps(b))
            back = c[0]["exp"]["back"]
            f = rng.choice(sorted(back))
            v = back[f]
            back[f] = (not v) if isinstance(v, bool) else (v + ["x"]) if isinstance(v, list) else (v + "x")
            bad.append(c)
        for b in [b for b in good if b[0]["act"]["name"] in ("ToName", "OfName", "EnumJSON")][::7]:
            c = json.loads(json.dumps(b))
            if "str" in c[0]["exp"]:
                c[0]["exp"]["str"] += "x"
            else:
                c[0]["exp"]["v"] = "DirectionIn" if c[0]["exp"]["v"] != "DirectionIn" else "DirectionSum"
            bad.append(c)
        nf, _ = _replay(vh, bad)
        vlib.require(len(nf) == len(bad), "negative control: %d of %d corrupted cases were accepted" % (len(bad) - len(nf), len(bad)))
        run.cov["negative_control"] = "%d cases with one corrupted expected field all rejected" % len(bad)

    run.cov["rule"] = ("distinct = distinct abstract values round-tripped (enumeration members; records with <=2 "
                       "%snon-default fields), each with 2 codecs x value/pointer" %
                       ("(<=3 for Row and Statement) " if thorough else ""))
    run.assumptions += ["the JSON codecs are exercised, not modelled",
                        "class tables (counter, time, address classes) are concretised by the harness",
                        "time labels equivalent = same instant; nil list equivalent to empty list",
                        "FromString is only judged on names of members (unknown strings are not specified)"]
    return run.finish(exhaustive=False)


def replay(path):
    d = json.load(open(path))["replay"]
    vh = vlib.build_vh("enums")
    rc, outs, _ = vlib.run_vh(vh, ["enums-replay"], stdin_lines=[json.dumps(d["behaviour"])])
    bad = [o for o in outs if o.get("ok") is False]
    for o in bad:
        o.pop("behaviour", None)
    print(json.dumps(bad or outs, indent=1)[:3000])
    return 1 if bad else 0
