"""C12 - interface summaries equal the data stored in the listed range.

M  ListRangeMC: the writer (append block, keep day totals in the directory suffix) and the algorithm of
   DBWorkManager.ReadMetadata (add the suffix totals of every walked day, subtract the blocks before
   `first` on the first walked day, subtract the blocks after `last`) as actions; TLC explores every DB of
   <= NDays x 4 write-out slots and every (first, last) of a 15-point grid and checks
   AlgoEqualsDefinition for the design without deviations (must hold) and for each named deviation the
   code is suspected of (must fail: the invariant is not vacuous; the counterexample is a candidate).
F  ListRangeGen: the same family, DB by DB: the Write steps are executed with the real goDB.DBWriter, the
   whole-range listing is compared after every write, then the real DBWorkManager.ReadMetadata(first, last)
   is compared with the specification's Summary for all 120 ranges and its packet/byte totals with a real
   engine query over the same range.  Candidates of M are replayed on the real code.
"""
import json
import os
import random
from concurrent.futures import ThreadPoolExecutor

import vlib

MANIFEST = {
    "level": "model_checking",
    "technique": "TLA+ spec ListRange: TLC exhaustive over a finite DB family x range grid + every TLC-evaluated case replayed on "
                 "real DBs through DBWriter / DBWorkManager.ReadMetadata / engine query",
    "text": "ListRange.tla defines Summary(db, first, last) as the sum over the stored blocks with first <= ts <= last (the engine's "
            "own block rule) and models ReadMetadata's add-day-totals-then-subtract algorithm step by step; TLC checks the algorithm "
            "against the definition for all DBs of <=3 days x 4 write-out slots x 120 ranges (bounds on blocks, between blocks, on day "
            "boundaries, within 300 s of midnight, outside the data). Every DB of the family (quick: 100 seeded + the model candidates) is "
            "written with the real DBWriter and every range is listed with the real ReadMetadata and compared field by field with the "
            "TLC-computed summary; packet/byte totals are compared with a real query over the same range.",
    "note": "Finite family (fixed slot offsets and block contents, one interface); the calendar position of the three days is "
            "rotated over ordinary days, a month end, a year end and a leap day; engine queries are run for a rotating subset of the "
            "ranges; time zone pinned to UTC in the harness.",
    "ref": "6.3",
}

FAMILY = "listrange"
# the machine is shared: keep the JVMs' GC thread pools and the Go runtime small
JENV = {"JAVA_TOOL_OPTIONS": "-XX:ParallelGCThreads=2 -XX:CICompilerCount=2"}
GOENV = {"GOMAXPROCS": "4"}
QUICK_DBS = 100
NWRITES = 12               # 3 days x 4 slots
DEVS = ("A", "B", "C")
DEV_WHAT = {
    "A": "BlocksAfter(last) keeps the first block after a bound that falls between blocks",
    "B": "drops of subtracted blocks are never subtracted",
    "C": "blocks after `last` on the day before the last walked day are kept when `last` is < 300 s before midnight",
}


def _cfg(name):
    with open(os.path.join(vlib.SPEC, FAMILY, name)) as fh:
        return fh.read()


def _mc_cfg(ndays, dev, grid="MCGrid", slots="MCSlots"):
    base = _cfg("ListRangeMC.cfg").replace("Slots <- MCSlots", "Slots <- " + slots)
    base = base.replace("NDays = 2", "NDays = %d" % ndays).replace("Grid <- MCGrid", "Grid <- " + grid)
    return {"cfg_text": base.replace("Dev = {}", "Dev = {%s}" % ", ".join('"%s"' % d for d in dev))}


def _gen_cfg(masks, slots="MCSlots"):
    base = _cfg("ListRangeGen.cfg").replace("Slots <- MCSlots", "Slots <- " + slots)
    i, j = base.index("Pick = {"), base.index("}", base.index("Pick = {"))
    return {"cfg_text": base[:i] + "Pick = {%s" % ", ".join(str(m) for m in sorted(masks)) + base[j:]}


def _sub(sc, name):
    """own scratch sub-directory per concurrent TLC run (vlib.tlc names its copy by the millisecond)"""
    d = os.path.join(sc, name)
    os.makedirs(d, exist_ok=True)
    return d


def _replay(vh, sc, tag, behs, seed, qevery, maxfail=3):
    """Run the harness on a list of behaviours; returns (failure lines, summary)."""
    d = os.path.join(sc, "dbs-%s" % tag)
    os.makedirs(d, exist_ok=True)
    rc, outs, err = vlib.run_vh(vh, ["listrange-replay", "-seed", str(seed), "-dir", d, "-qevery", str(qevery),
                                     "-maxfail", str(maxfail)],
                                stdin_lines=[json.dumps(b, separators=(",", ":")) for b in behs], timeout=3000,
                                env_extra=GOENV)
    summ = [o for o in outs if o.get("summary")]
    vlib.require(summ and summ[0]["behaviours"] == len(behs), "replay %s did not process all behaviours" % tag)
    return [o for o in outs if o.get("ok") is False], summ[0]


def _merge(total, s):
    for k, v in s.items():
        if isinstance(v, bool) or k == "first_pass":
            continue
        if isinstance(v, int):
            total[k] = total.get(k, 0) + v
        elif isinstance(v, dict):
            t = total.setdefault(k, {})
            for kk, vv in v.items():
                t[kk] = t.get(kk, 0) + vv
    if s.get("first_pass") and not total.get("first_pass"):
        total["first_pass"] = s["first_pass"]


def main():
    run = vlib.Run("C12", "model_checking")
    thorough = run.tier == "thorough"
    vh = vlib.build_vh(FAMILY)
    par = max(2, min(5, vlib.NCPU // 3))
    allmasks = list(range(1 << NWRITES))
    if thorough:
        masks = allmasks
    else:
        masks = sorted(set(random.Random(run.seed).sample(allmasks, QUICK_DBS)) | {(1 << NWRITES) - 1})
    nchunks = 16 if thorough else 3
    chunks = [masks[i::nchunks] for i in range(nchunks)]
    qevery = 24 if thorough else 6

    with vlib.Scratch("verif-c12-") as sc:
        def gen(tag, ms, workers, slots="MCSlots"):
            g = vlib.tlc(FAMILY, "ListRangeGen", _gen_cfg(ms, slots), scratch=_sub(sc, "g-" + tag), timeout=1500, heap="3g",
                         env_extra=JENV, workers=workers)
            vlib.expect_tlc_ok(g, "ListRangeGen " + tag)
            if g.violation:
                raise vlib.MachineryError("ListRangeGen %s: %s" % (tag, g.violation))
            behs = sorted(g.traces, key=lambda b: b["mask"])
            vlib.require([b["mask"] for b in behs] == sorted(ms), "generator %s incomplete" % tag)
            for b in behs:
                vlib.require(len(b["cases"]) == 120, "mask %d: %d cases" % (b["mask"], len(b["cases"])))
                vlib.require(all(c["repaired"] for c in b["cases"]),
                             "spec inconsistency: Algo without deviations differs from Summary for mask %d" % b["mask"])
            return g, behs

        # the last chunk is the midnight family: same masks drawn again, first write-out of a day at 00:00:00
        midmasks = sorted(set(random.Random(run.seed + 7).sample(allmasks, 256 if thorough else 4)) | {(1 << NWRITES) - 1, 16, 17})

        def pipeline(i):
            if i == nchunks:
                g, behs = gen("mid", midmasks, 3 if thorough else 2, "MCSlotsMidnight")
                for b in behs:
                    b["mask"] += 1 << NWRITES      # distinct identity for descriptors and replays
                f, s = _replay(vh, sc, "mid", behs, run.seed, qevery)
                return g, f, s, None
            g, behs = gen("c%d" % i, chunks[i], 3 if thorough else 2)
            f, s = _replay(vh, sc, "c%d" % i, behs, run.seed, qevery)
            smp = behs[len(behs) // 2]
            return g, f, s, {"mask": smp["mask"], "writes": [(x["act"]["day"], x["act"]["ts"]) for x in smp["steps"]],
                             "case": smp["cases"][37]}

        # ---- M (model alone) and F (family on the real code) run side by side
        # M: the design without deviations must satisfy the definition on the whole family (2 days quick, 3 days thorough);
        #    a 1-day run with -coverage is the vacuity guard; each named deviation alone must violate the invariant.
        mjobs = {"repaired": (_mc_cfg(3 if thorough else 2, ()), dict(workers=4 if thorough else 3, heap="6g")),
                 "midnight": (_mc_cfg(2, (), slots="MCSlotsMidnight"), dict(workers=3, heap="6g")),
                 "cover": (_mc_cfg(1, ()), dict(coverage=True, workers=1, heap="2g"))}
        for d in DEVS:
            mjobs["dev" + d] = (_mc_cfg(2, (d,), "NegGrid"), dict(workers=1, heap="2g"))   # workers=1: deterministic counterexample
        with ThreadPoolExecutor(max_workers=len(mjobs)) as mex, ThreadPoolExecutor(max_workers=par) as fex:
            mfut = {k: mex.submit(vlib.tlc, FAMILY, "ListRangeMC", cfg, scratch=_sub(sc, "m-" + k), timeout=800,
                                  env_extra=JENV, **kw) for k, (cfg, kw) in mjobs.items()}
            ffut = [fex.submit(pipeline, i) for i in range(nchunks + 1)]
            res = {k: f.result() for k, f in mfut.items()}
            outs = [f.result() for f in ffut]

        ndays = 3 if thorough else 2
        r = vlib.expect_tlc_ok(res["repaired"], "ListRangeMC")
        if r.violation:
            raise vlib.MachineryError("ListRange design without deviations violates %s (spec error, not a code verdict)\n%s"
                                      % (r.violation, "\n".join(r.cex[:40])))
        vlib.require(r.distinct > (2000000 if thorough else 100000), "model run explored too few states")
        run.add_tlc(r, "ListRangeMC NDays=%d Dev={}" % ndays)
        rm = vlib.expect_tlc_ok(res["midnight"], "ListRangeMC midnight")
        if rm.violation:
            raise vlib.MachineryError("ListRange design (midnight slots) violates %s (spec error, not a code verdict)" % rm.violation)
        run.add_tlc(rm, "ListRangeMC NDays=2 Dev={} first write-out at midnight")
        cv = vlib.expect_tlc_ok(res["cover"], "ListRangeMC coverage")
        vlib.require(cv.violation is None, "ListRangeMC NDays=1 violates %s" % cv.violation)
        for a in ("WriteBlock", "SkipSlot", "List", "AddDay", "SubtractBefore", "SubtractAfter"):
            vlib.require(cv.coverage.get(a, (0, 0))[0] > 0, "vacuous: action %s never taken" % a)
        run.add_tlc(cv, "ListRangeMC NDays=1 Dev={} -coverage")
        candidates = []
        for d in DEVS:
            n = res["dev" + d]
            if n.error:
                raise vlib.MachineryError("ListRangeMC Dev={%s}: %s\n%s" % (d, n.error, n.stdout[-2000:]))
            vlib.require(n.violation == "AlgoEqualsDefinitionP" and n.infos,
                         "negative model run: deviation %s does not violate AlgoEqualsDefinition on the family "
                         "(invariant vacuous or family too poor)" % d)
            c = n.infos[0]
            candidates.append({"dev": d, "mask": c["mask"], "f": c["f"], "l": c["l"], "model_algo": c["algo"], "def": c["def"]})
            run.add_tlc(n, "ListRangeMC NDays=2 Dev={%s} (must fail)" % d)
        run.cov["model_negative_runs"] = "each of Dev={A},{B},{C} violates AlgoEqualsDefinition on the model"

        # ---- F results
        total = {}
        fails = []
        for g, f, s, smp in outs:
            fails += f
            _merge(total, s)
        gsum = vlib.TLCResult()
        gsum.generated = sum(o[0].generated for o in outs)
        gsum.distinct = sum(o[0].distinct for o in outs)
        gsum.depth = max(o[0].depth for o in outs)
        gsum.wall = sum(o[0].wall for o in outs)
        run.add_tlc(gsum, "ListRangeGen (%d chunks + midnight family of %d DBs)" % (nchunks, len(midmasks)))
        run.cov["midnight_family_dbs"] = len(midmasks)
        run.sample({"kind": "generated DB and one of its 120 range cases", **outs[0][3]})

        run.count(total.get("steps", 0) + total.get("cases", 0) + total.get("queries", 0))
        run.cov["traces_validated_against_impl"] = total.get("behaviours", 0)
        run.cov["dbs_written"] = total.get("behaviours", 0)
        run.cov["write_steps_checked"] = total.get("steps", 0)
        run.cov["range_cases_checked"] = total.get("cases", 0)
        run.cov["engine_queries_compared"] = total.get("queries", 0)
        run.cov["cases_skipped_no_interface"] = total.get("skipped", 0)
        run.cov["distinct_nontrivial"] = total.get("cut", 0)
        run.cov["bound_class_pairs_covered"] = len(total.get("class_pairs", {}))
        run.cov["cases_failed"] = total.get("failed_cases", 0)
        run.cov["cases_agreeing_with_as_built_model"] = total.get("asbuilt_agree", 0)
        run.cov["failure_classes"] = total.get("fail_counts", {})
        vlib.require(total.get("cases", 0) >= 120 * (len(masks) + len(midmasks) - 2), "too few cases executed")
        vlib.require(total.get("queries", 0) > 0, "no engine query was compared")
        if total.get("asbuilt_agree", 0) != total.get("cases", 0):
            run.note("the model of ReadMetadata as read from the code (Dev={A,B,C}) no longer predicts every listing: %d of %d"
                     % (total.get("asbuilt_agree", 0), total.get("cases", 0)))

        # one violation per root-cause descriptor, smallest failing example as replay
        groups = {}
        for o in fails:
            key = json.dumps(o["desc"], sort_keys=True)
            c = o.get("case") or {}
            rank = (o["mask"], c.get("f", 0), c.get("l", 0))
            if key not in groups or rank < groups[key][0]:
                groups[key] = (rank, o)
        counts = total.get("fail_counts", {})
        for key in sorted(groups):
            o = groups[key][1]
            n = counts.get(json.dumps(o["desc"], sort_keys=True, separators=(",", ":")), None)
            run.violation(o["desc"], {"kind": "listrange-replay", "seed": run.seed, "behaviour": o.get("behaviour"),
                                      "step": o.get("step"), "what": o.get("kind"), "msg": o.get("msg", "")[:2000],
                                      "got": o.get("got"), "query_totals": o.get("query"),
                                      "base_unix": o.get("base"), "encoder": o.get("encoder"),
                                      "failing_cases_of_this_class": n})

        # ---- candidates of the model replayed on the real code (confirmed = the real code deviates the same way)
        cmasks = sorted({c["mask"] for c in candidates})
        g, cbehs = gen("cand", cmasks, 1)
        run.add_tlc(g, "ListRangeGen (model candidates)")
        conf = []
        for c in candidates:
            b0 = [b for b in cbehs if b["mask"] == c["mask"]][0]
            b = dict(b0, cases=[x for x in b0["cases"] if x["f"] == c["f"] and x["l"] == c["l"]])
            vlib.require(len(b["cases"]) == 1, "candidate case not in the generated family")
            f, s = _replay(vh, sc, "cand" + c["dev"], [b], run.seed, 1, maxfail=10)
            devs = sorted({o["desc"].get("dev") for o in f if o["desc"].get("dev")})
            conf.append({"dev": c["dev"], "what": DEV_WHAT[c["dev"]], "mask": c["mask"], "first": c["f"], "last": c["l"],
                         "spec_summary": c["def"], "model_with_this_deviation_only": c["model_algo"],
                         "real_code": f[0].get("got") if f else b["cases"][0]["exp"],
                         "confirmed_on_real_code": c["dev"] in devs})
            run.count(s["steps"] + s["cases"] + s["queries"])
        run.cov["model_candidates"] = conf

        # ---- negative control: the binding must reject a corrupted expectation
        vlib.require(total.get("first_pass"), "no passing non-trivial case to build the negative control from")
        good = json.loads(total["first_pass"])
        f0, s0 = _replay(vh, sc, "neg0", [good], run.seed, 1)
        vlib.require(not f0 and s0["passed"] == 1, "negative control base case does not pass on its own")
        bad = json.loads(total["first_pass"])
        bad["cases"][0]["exp"][5] += 1            # packets received
        f1, _ = _replay(vh, sc, "neg1", [bad], run.seed, 1)
        vlib.require(len(f1) >= 1 and f1[0]["desc"].get("cls") in ("unexplained", "query-totals-differ-from-definition"),
                     "negative control: corrupted expected summary was accepted")
        bad2 = json.loads(total["first_pass"])
        bad2["steps"][-1]["exp"][2] += 1          # drops in the whole-range listing after the last write
        f2, _ = _replay(vh, sc, "neg2", [bad2], run.seed, 1)
        vlib.require(len(f2) == 1 and f2[0]["desc"].get("cls") == "whole-range-summary",
                     "negative control: corrupted whole-range listing was accepted")
        run.cov["negative_control"] = "corrupted expected summary (mask %d) and corrupted write-step listing rejected" % good["mask"]

    run.cov["rule"] = ("cases = (DB, first, last): %s DBs over 3 days x 4 write-out slots x 120 ranges from a 15-point grid; "
                       "distinct_nontrivial = cases whose range cuts the stored data (expected summary neither empty nor the whole DB)"
                       % ("all 4096" if thorough else "%d seeded of the 4096" % QUICK_DBS))
    run.assumptions += ["block contents are fixed per write-out slot (distinct powers of two per additive field; one write-out without "
                        "flows, one IPv6-only, three without drops)",
                        "one interface; blocks written in time order by goDB.DBWriter.Write (lz4, every fifth DB null encoder)",
                        "the engine query is run for every %dth case (rotating with DB and seed)" % qevery,
                        "harness runs with time.Local = UTC"]
    return run.finish(exhaustive=thorough)


def replay(path):
    d = json.load(open(path))["replay"]
    vh = vlib.build_vh(FAMILY)
    if d.get("kind") == "listrange-replay" and d.get("behaviour"):
        with vlib.Scratch("verif-c12r-") as sc:
            f, s = _replay(vh, sc, "r", [d["behaviour"]], d["seed"], 1, maxfail=10)
        for o in f:
            o.pop("behaviour", None)
        print(json.dumps(f or s, indent=1)[:4000])
        return 1 if f else 0
    print("re-run: ./check C12")
    return 2
