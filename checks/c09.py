"""C09 - conditions follow Boolean logic over per-flow comparisons.

M  CondMC: the mechanism of node.ParseAndInstrument / Node.Evaluate (Desugar ; Normalize (NNF) ;
   Instrument ; Evaluate(key) in any order, repeatedly) explored for every tree of the bounded
   domain; no stage changes the selection, Evaluate answers Eval and leaves the key alone.  The
   theorems (NNF / De Morgan / desugaring / set algebra / family / '!=' is the complement) are
   evaluated over the whole domain.  Two negative runs must fail: the as-built in-place mask
   (MaskInPlace) and the other reading of '!=' across IP families (NeqForeignFamily = FALSE).
F  CondGen: every tree of height <= 1 over 67 atoms and every tree of height <= 2 over 6 (7) core
   atoms, with the predicted answer for each of the 24 flows, is rendered to text, parsed by
   node.ParseAndInstrument and evaluated on real types.Key values: answer, key bytes afterwards,
   panics and order independence are compared per (tree, flow).
B  CondTrace: seeded random trees (all prefix lengths, one-bit neighbours of the address universe,
   random flows) are evaluated by the real code and every logged answer is judged by TLC.
"""
import json
import os
import subprocess
import sys
import time
import vlib

_T0 = [time.time()]


def _phase(label):
    if os.environ.get("VERIF_DEBUG"):
        sys.stderr.write("[%s] %-28s %.1fs\n" % (__name__, label, time.time() - _T0[0]))
    _T0[0] = time.time()

MANIFEST = {
    "level": "model_checking",
    "technique": "TLA+ spec Cond (Boolean semantics + ParseAndInstrument/Evaluate mechanism): TLC exhaustive with theorems, "
                 "TLC-enumerated trees x flow universe replayed on node.ParseAndInstrument/Evaluate, TLC validation of seeded random trees",
    "text": "Cond.tla gives conditions the textbook Boolean meaning over flow records with byte-exact addresses; TLC proves NNF, "
            "De Morgan, desugaring and '!=' = complement over the bounded domain and that the staged mechanism preserves the "
            "selection and never writes a key. Every tree of height <=1 over 67 atoms and height <=2 over core atoms is evaluated "
            "by the real code on all 24 flows (IPv4 and IPv6 keys) and compared with TLC's answer; key bytes, panics and evaluation "
            "order are checked; seeded random trees with every prefix length are validated by TLC.",
    "note": "Exhaustive for the enumerated trees and the 24-flow universe only; hostnames (DNS) and the direction filter are outside "
            "the statement and not exercised; '!=' across IP families follows the statement's reading, cases hinging on it are tagged "
            "neq-foreign-family.",
    "ref": "6.3 C09",
}

ALIAS = {"src": "sip", "dst": "dip", "port": "dport", "protocol": "proto", "ipproto": "proto"}
ADDR = {"sip", "dip", "host"}
NETS = {"snet", "dnet", "net"}


def atoms_of(t, acc=None):
    acc = [] if acc is None else acc
    if t["k"] == "atom":
        acc.append(t)
    elif t["k"] == "not":
        atoms_of(t["x"], acc)
    else:
        atoms_of(t["l"], acc)
        atoms_of(t["r"], acc)
    return acc


def akey(a):
    return json.dumps([a["attr"], a["cmp"], a.get("b") or [], a.get("n", 0), a.get("sym", "")])


def classify(tree, flowfam, kind, afacts, hinge):
    """Abstract descriptor of one failing (tree, flow) fact.
    afacts: per atom of the tree (left to right) {"fail","mut","panic"} of the atom evaluated on its own."""
    if kind == "rejected":
        return {"cls": "rejected"}
    atoms = atoms_of(tree)
    if kind == "panic" and flowfam == 0:
        return {"cls": "panic-parse"}
    if kind == "mutated":
        for a, f in zip(atoms, afacts):
            if f["mut"]:
                return {"cls": "inplace-mask"}
        return {"cls": "key-mutated-compound"}
    culprit = None
    for a, f in zip(atoms, afacts):
        if f["panic"] or f["fail"]:
            culprit = (a, f)
            break
    if culprit:
        a, f = culprit
        base = ALIAS.get(a["attr"], a["attr"])
        fam = (4 if len(a.get("b") or []) == 4 else 6) if base in ADDR | NETS else flowfam
        if f["panic"]:
            cls = "panic-foreign-family-prefix" if base in NETS and fam != flowfam else "panic"
        elif base in NETS and fam != flowfam:
            cls = "cross-family-prefix"
        elif base in ADDR and fam != flowfam:
            cls = "cross-family-addr"
        else:
            cls = "atom-semantics"
        d = {"cls": cls}
        if cls in ("atom-semantics", "panic"):
            d.update(attr=base, cmp=a["cmp"])
    elif kind == "panic":
        d = {"cls": "panic-compound"}
    elif any(f["mut"] for f in afacts):
        d = {"cls": "inplace-mask-stale-read"}
    else:
        d = {"cls": "compound-logic", "root": tree["k"]}
    if hinge and kind in ("result", "order"):
        d = dict(d, cause=d["cls"], cls="neq-foreign-family")
    return d


class Agg:
    def __init__(self):
        self.by = {}

    def add(self, desc, universe, case, example):
        k = json.dumps(desc, sort_keys=True)
        e = self.by.setdefault(k, {"desc": desc, "count": 0, "examples": [], "cases": [], "flows": universe})
        e["count"] += 1
        if len(e["examples"]) < 3:
            e["examples"].append(example)
            e["cases"].append(case)

    def report(self, run):
        for k in sorted(self.by):
            e = self.by[k]
            run.violation(e["desc"], {"kind": "cond-replay", "flows": e["flows"], "cases": e["cases"],
                                      "count": e["count"], "examples": e["examples"]})


def replay_cases(vh, universe, cases, seed, prefix=None):
    lines = [json.dumps({"flows": universe}, separators=(",", ":"))] + [json.dumps(c, separators=(",", ":")) for c in cases]
    rc, outs, _ = vlib.run_vh(vh, ["cond-replay", "-seed", str(seed)], stdin_lines=lines, timeout=1800, prefix=prefix)
    summ = [o for o in outs if o.get("summary")]
    vlib.require(summ and summ[0]["conditions"] == len(cases), "cond-replay did not process all cases")
    return summ[0], [o for o in outs if o.get("ok") is False]


def _hosts_prefix(sc, names):
    """Command prefix that runs the harness in a private mount namespace in which /etc/hosts is the
    specification's resolver table (Names); None when the sandbox does not allow that."""
    hosts = os.path.join(sc, "hosts")
    with open(hosts, "w") as fh:
        fh.write("127.0.0.1 localhost\n")
        for name in sorted(names):
            for a in sorted(names[name], key=lambda x: (len(x), x)):
                ip = ".".join(map(str, a)) if len(a) == 4 else \
                    ":".join("%x" % (a[i] * 256 + a[i + 1]) for i in range(0, 16, 2))
                fh.write("%s %s\n" % (ip, name))
    prefix = ["unshare", "-m", "sh", "-c", 'mount --bind "$0" /etc/hosts && exec "$@"', hosts]
    try:
        p = subprocess.run(prefix + ["grep", "-c", "two4.test", "/etc/hosts"], stdout=subprocess.PIPE, stderr=subprocess.PIPE, text=True, timeout=30)
    except (OSError, subprocess.TimeoutExpired):
        return None
    return prefix if p.returncode == 0 and p.stdout.strip() == "2" else None


def main():
    run = vlib.Run("C09", "model_checking")
    thorough = run.tier == "thorough"
    vh = vlib.build_vh("cond")
    agg = Agg()
    with vlib.Scratch("verif-c09-") as sc:
        # ---------------------------------------------------------------- M
        r = vlib.tlc("cond", "CondMC", "CondMC.cfg", coverage=True, scratch=sc, timeout=900,
                     consts="CONSTANT Thorough = %s" % ("TRUE" if thorough else "FALSE"))
        vlib.expect_tlc_ok(r, "CondMC")
        if r.violation:
            raise vlib.MachineryError("Cond design violates %s (spec error, not a code verdict)\n%s" %
                                      (r.violation, "\n".join(r.cex[:40])))
        for a in ("DesugarStep", "Normalize", "Instrument", "Evaluate"):
            vlib.require(r.coverage.get(a, (0, 0))[0] > 0, "vacuous: action %s never taken" % a)
        run.add_tlc(r, "CondMC")
        _phase("M CondMC")
        # negative runs on the model: the invariants / theorems are not vacuous
        n1 = vlib.tlc("cond", "CondMC", "CondMCNeg.cfg", scratch=sc, timeout=600, consts="CONSTANT MaskInPlace = TRUE")
        vlib.require(n1.violation == "ResultsRight",
                     "negative run: in-place masking must violate ResultsRight, got %s / %s" % (n1.violation, n1.error))
        n2 = vlib.tlc("cond", "CondMC", "CondMCNeg.cfg", scratch=sc, timeout=600, consts="CONSTANT NeqForeignFamily = FALSE")
        vlib.require(n2.violation == "assumption" or (n2.error and "Assumption" in n2.error),
                     "negative run: the other reading of != must break a theorem, got %s / %s" % (n2.violation, n2.error))
        run.cov["negative_model_runs"] = ["MaskInPlace=TRUE violates ResultsRight",
                                          "NeqForeignFamily=FALSE breaks the '!=' / NNF theorems"]

        _phase("M negative runs")
        # ---------------------------------------------------------------- F
        g = vlib.tlc("cond", "CondGen", "CondGen.cfg", scratch=sc, timeout=1500,
                     consts='CONSTANT GenSet = "%s"' % ("thorough" if thorough else "quick"))
        vlib.expect_tlc_ok(g, "CondGen")
        vlib.require(len(g.traces) > 20000 and g.infos, "generator produced too few cases")
        run.add_tlc(g, "CondGen")
        _phase("F generator")
        universe = g.infos[0]["flows"]
        fam_of = {f["id"]: f["fam"] for f in universe}
        cases = sorted(g.traces, key=lambda c: (c["h"], json.dumps(c["tree"], sort_keys=True)))
        summ, bad = replay_cases(vh, universe, cases, run.seed)
        _phase("F replay")
        run.count(summ["evaluations"])
        run.cov["traces_validated_against_impl"] += len(cases)
        run.cov["conditions_replayed"] = len(cases)
        run.cov["flows"] = len(universe)
        for c in cases:
            if any(c["exp"]) and not all(c["exp"]):
                run.distinct(json.dumps(c["tree"], sort_keys=True))
        run.sample({"kind": "generated case", "tree": cases[len(cases) // 2]["tree"], "exp": cases[len(cases) // 2]["exp"]})
        # stand-alone facts of every atom (atoms are cases of height 0)
        atomfacts = {}
        for o in bad:
            c = o["case"]
            if c["tree"]["k"] != "atom":
                continue
            d = atomfacts.setdefault(akey(c["tree"]), {})
            for f in o["fails"]:
                x = d.setdefault(f["flow"], {"fail": False, "mut": False, "panic": False})
                x[{"result": "fail", "order": "fail", "mutated": "mut", "panic": "panic", "rejected": "fail"}[f["kind"]]] = True
        none = {"fail": False, "mut": False, "panic": False}
        nfail = 0
        for o in bad:
            c = o["case"]
            atoms = atoms_of(c["tree"])
            for f in o["fails"]:
                nfail += 1
                fl = f["flow"]
                af = [atomfacts.get(akey(a), {}).get(fl, none) for a in atoms]
                hinge = bool(fl and c["hinge"][fl - 1])
                desc = classify(c["tree"], fam_of.get(fl, 0), f["kind"], af, hinge)
                agg.add(desc, universe, c, {"text": o["text"], "flow": fl, "kind": f["kind"], "exp": f.get("exp"),
                                           "got": f.get("got"), "msg": f.get("msg", "").split("\n")[0][:300]})
        run.cov["failing_facts_F"] = nfail
        # ---- host names as values: the generator's "names" family, executed with the specification's
        # resolver table as /etc/hosts (private mount namespace)
        gn = vlib.tlc("cond", "CondGen", "CondGen.cfg", scratch=sc, timeout=600, consts='CONSTANT GenSet = "names"')
        vlib.expect_tlc_ok(gn, "CondGen names")
        vlib.require(len(gn.traces) > 100 and gn.infos and gn.infos[0].get("names"), "generator produced no host name cases")
        prefix = _hosts_prefix(sc, gn.infos[0]["names"])
        if prefix is None:
            run.note("host names as condition values were not exercised: a private mount namespace (unshare -m) is not available")
            run.cov["host_name_conditions_replayed"] = 0
        else:
            ncases = sorted(gn.traces, key=lambda c: (c["h"], json.dumps(c["tree"], sort_keys=True)))
            nsumm, nbad = replay_cases(vh, universe, ncases, run.seed, prefix=prefix)
            run.add_tlc(gn, "CondGen names")
            run.count(nsumm["evaluations"])
            run.cov["traces_validated_against_impl"] += len(ncases)
            run.cov["host_name_conditions_replayed"] = len(ncases)
            for o in nbad:
                c = o["case"]
                named = [a for a in atoms_of(c["tree"]) if a["sym"] and a["attr"] in ("sip", "dip")]
                for f in o["fails"]:
                    nfail += 1
                    desc = {"cls": "host-name-value", "kind": f["kind"],
                            "cmp": sorted({a["cmp"] for a in named}), "addresses": sorted({len(gn.infos[0]["names"][a["sym"]]) for a in named})}
                    agg.add(desc, universe, c, {"text": o["text"], "flow": f["flow"], "kind": f["kind"], "exp": f.get("exp"),
                                               "got": f.get("got"), "msg": f.get("msg", "").split("\n")[0][:300]})
        # negative control: a corrupted expectation must be rejected by the binding
        badids = {o["id"] for o in bad}
        okcase = next(c for i, c in enumerate(cases) if i not in badids and c["h"] >= 1)
        corrupt = json.loads(json.dumps(okcase))
        corrupt["exp"][0] = not corrupt["exp"][0]
        _, nb = replay_cases(vh, universe, [corrupt], run.seed)
        vlib.require(len(nb) == 1 and any(f["kind"] == "result" and f["flow"] == universe[0]["id"] for f in nb[0]["fails"]),
                     "negative control: corrupted expectation was accepted by the replay")
        run.cov["negative_control"] = "flipped expectation of flow 1 of a passing condition rejected by the replay"

        _phase("F classify + control")
        # ---------------------------------------------------------------- B
        ntrees, depth, nfl = (20000, 5, 8) if thorough else (3000, 4, 6)
        p = subprocess.run([vh, "cond-drive", "-seed", str(run.seed), "-n", str(ntrees), "-depth", str(depth), "-flows", str(nfl)],
                           input=json.dumps({"flows": universe}) + "\n", stdout=subprocess.PIPE, stderr=subprocess.PIPE, text=True)
        if p.returncode != 0:
            raise vlib.MachineryError("cond-drive failed: " + p.stderr[-2000:])
        tfile = os.path.join(sc, "trace.ndjson")
        with open(tfile, "w") as fh:
            fh.write(p.stdout)
        evs = [json.loads(x) for x in p.stdout.splitlines()]
        t = vlib.tlc("cond", "CondTrace", "CondTrace.cfg", workers=1, files={"trace.ndjson": tfile}, scratch=sc,
                     timeout=2400, heap="12g")
        if t.error or t.violation:
            raise vlib.MachineryError("CondTrace: %s %s\n%s" % (t.error, t.violation, t.stdout[-2000:]))
        run.add_tlc(t, "CondTrace")
        _phase("B drive + CondTrace")
        run.count(len(evs) * nfl * 2)
        run.cov["traces_validated_against_impl"] += len(evs)
        run.cov["random_trees_validated"] = len(evs)
        plens = set()
        for e in evs:
            for a in e["atoms"]:
                if a["a"]["attr"] in NETS:
                    plens.add((len(a["a"]["b"]), a["a"]["n"]))
            run.distinct(e["text"])
        run.cov["distinct_prefix_lengths_v4"] = len({p for (l, p) in plens if l == 4})
        run.cov["distinct_prefix_lengths_v6"] = len({p for (l, p) in plens if l == 16})
        run.sample({"kind": "random tree event", "text": evs[len(evs) // 3]["text"], "got": evs[len(evs) // 3]["got"]})
        nfail_b = 0
        for m in t.mismatches:
            e = evs[m["line"] - 1]
            vlib.require(m["legal"], "driver produced an atom or flow outside the specification's domain: %s" % e["text"])
            case = {"tree": e["tree"], "exp": m["exp"], "hinge": m["hinge"], "h": 9}
            for j, fl in enumerate(e["flows"]):
                kinds = []
                if e["rej"]:
                    kinds.append("rejected")
                elif e["panic"][j]:
                    kinds.append("panic")
                elif e["got"][j] != m["exp"][j]:
                    kinds.append("result")
                elif e["got2"][j] != m["exp"][j]:
                    kinds.append("order")
                if e["mut"][j]:
                    kinds.append("mutated")
                af = [{"fail": a["rej"] or a["got"][j] != m["aexp"][i][j], "mut": a["mut"][j], "panic": a["panic"][j]}
                      for i, a in enumerate(e["atoms"])]
                for kind in kinds:
                    nfail_b += 1
                    desc = classify(e["tree"], fl["fam"], kind, af, m["hinge"][j])
                    agg.add(desc, e["flows"], case, {"text": e["text"], "flow": fl, "kind": kind, "exp": m["exp"][j],
                                                     "got": e["got"][j], "msg": e.get("msg", "").split("\n")[0][:300]})
                if e["rej"]:
                    break
        run.cov["failing_facts_B"] = nfail_b
        if not t.mismatches:
            # negative control for B: a corrupted logged answer must be flagged by TLC
            e = json.loads(json.dumps(evs[len(evs) // 2]))
            e["got"][0] = not e["got"][0]
            n = vlib.tlc("cond", "CondTrace", "CondTrace.cfg", workers=1, files={"trace.ndjson": json.dumps(e) + "\n"},
                         scratch=sc, timeout=600)
            vlib.require(len(n.mismatches) == 1, "negative control: corrupted trace event was accepted")
            run.cov["negative_control_B"] = "flipped logged answer rejected by CondTrace"
    agg.report(run)
    run.cov["violation_classes"] = {k: v["count"] for k, v in sorted(agg.by.items())}
    run.cov["rule"] = ("F: all trees of height <=1 over 67 atoms and height <=2 over %d core atoms x 24 flows x 2 orders; "
                       "B: %d seeded random trees of height <=%d x %d random flows x 2 orders; distinct = conditions whose "
                       "selection over the universe is neither empty nor everything (F) plus distinct random texts (B)"
                       % (7 if thorough else 6, ntrees, depth, nfl))
    run.assumptions += ["'a != v' is the complement of 'a = v' also across IP families (statement, sentence 1); cases that hinge on it are tagged",
                        "src/dst/port/protocol/ipproto are other names of sip/dip/dport/proto (help text attribute list; the swapped "
                        "src/dst example in the help text is taken to be a typo)",
                        "keys are built with types.NewV4Key / NewV6Key (exact-size backing array)",
                        "hostname values and the direction filter are not conditions on flow attributes and are not exercised"]
    return run.finish(exhaustive=True)


def replay(path):
    d = json.load(open(path))["replay"]
    vh = vlib.build_vh("cond")
    summ, bad = replay_cases(vh, d["flows"], d["cases"], 1)
    for o in bad:
        print(o["text"])
        for f in o["fails"]:
            print("   flow %s %s exp=%s got=%s %s" % (f["flow"], f["kind"], f.get("exp"), f.get("got"), f.get("msg", "")[:200].splitlines()[0] if f.get("msg") else ""))
    return 1 if bad else 0
