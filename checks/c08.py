"""C08 - query results equal a direct aggregation of the stored flows.

M  QueryMC: the engine's pipeline (day selection, covered interval, workloads, per-block scan with IP
   family pruning, per-workload maps, merge in any order, rows / direction filter / totals / hits) as a
   state machine; invariant PipelineEqualsDefinition (= Query!Result) for every worker and merge order
   over small databases and a query product.  With sound pruning it holds; with the as-built pruning
   TLC finds a counterexample (candidate only).
F  QueryGen: TLC prints (database, query, Result(db,q)) cases - all condition trees of height <= 2 over
   a core atom set for fixed mixed-family databases and attribute selections, a pairwise design over
   (attributes x labels x time range class x direction filter) for seeded databases, IPv6 addresses with
   twelve trailing zero bytes.  The harness writes the databases with the real DBWriter, runs the real
   engine and compares rows (multiset), totals, hits and Summary.Interfaces.
B  QueryTrace: a seeded driver builds larger databases and queries (conditions from the whole grammar,
   random time ranges), logs the engine's rows; TLC evaluates Result(db,q) on every event.
"""
import json
import os
import subprocess
import threading
import vlib

MANIFEST = {
    "level": "model_checking",
    "technique": "TLA+ spec Query/QueryPipeline: TLC exhaustive over worker/merge orders + TLC-generated (db, query, result) "
                 "cases replayed on real databases through the real engine + TLC validation of seeded engine runs",
    "text": "Query.tla defines Result(db,q) (select by block time and Cond!Eval, group by attributes and labels, sum, "
            "direction filter on the sums, totals, hits); QueryPipeline.tla models the engine stage by stage and TLC shows "
            "PipelineEqualsDefinition for every worker and merge order on small databases. TLC-generated cases (all condition "
            "trees of height <= 2 over a core atom set on mixed IPv4/IPv6 databases, a pairwise design over attributes x labels x "
            "time-range class x direction filter on seeded databases) are written with the real DBWriter and queried through "
            "engine.QueryRunner; rows, totals, hits and interfaces must equal the specification's. Seeded larger runs are "
            "validated by TLC against Result(db,q).",
    "note": "Trusts the harness' concretisation (records -> AggFlowMap -> DBWriter) and projection (results.Row -> flat row) and "
            "TLC. Fields a query did not ask for are not judged. Time binning, sorting and limits are other properties "
            "(C13, C14); block timestamps are multiples of 300 s. Counters stay below 2^31 (TLC integers).",
    "ref": "6.3",
}

NPROC = 6          # harness processes run side by side (each GOMAXPROCS=1: the engine calls runtime.GC per query)


# ----------------------------------------------------------------------------- helpers

def _rowkey(r):
    return json.dumps([r["iface"], r["ts"], r["sip"], r["dip"], r["dport"], r["proto"], r["br"], r["bs"], r["pr"], r["ps"]])


def _same_rows(a, b):
    return sorted(_rowkey(r) for r in a) == sorted(_rowkey(r) for r in b)


def _lowzero(addr):
    """what types.RawIPToAddr makes of a 16 byte address whose last twelve bytes are zero"""
    if len(addr) == 16 and not any(addr[4:]):
        return addr[:4]
    return addr


def _lowzero_rows(rows):
    out = []
    for r in rows:
        r = dict(r)
        r["sip"], r["dip"] = _lowzero(r["sip"]), _lowzero(r["dip"])
        out.append(r)
    return out


def _shape(t):
    if not t or t.get("k") in (None, "true"):
        return "none"
    return t["k"] if t["k"] != "atom" else "atom:%s%s" % (t.get("attr"), t.get("cmp"))


def classify(q, exp_rows, got, kind, ptag, prows, hinge=False):
    """abstract descriptor of a mismatching case (stable across seeds).
    family-pruning: the rows are exactly those the as-built IP family pruning of the model returns; shape "neq" = would be
    right if != atoms did not prune, "or" = needs a sound treatment of disjunctions; reading = "neq-only" if the returned rows
    are what the definition gives under the other reading of != across IP families (a != v needs v's family)"""
    got_rows = got.get("rows") or []
    if kind == "rows":
        reading = "neq-only" if hinge else "any"
        if ptag in ("neq", "or") and _same_rows(prows, got_rows):
            return {"cls": "family-pruning", "shape": ptag, "reading": reading}
        if _same_rows(_lowzero_rows(exp_rows), got_rows) and not _same_rows(exp_rows, got_rows):
            return {"cls": "v6-lowzero-address-as-v4"}
        if ptag in ("neq", "or") and _same_rows(_lowzero_rows(prows), got_rows):
            return {"cls": "family-pruning", "shape": ptag, "reading": reading, "lowzero": True}
    return {"cls": "result-mismatch", "kind": kind, "attrs": ",".join(sorted(q.get("attrs", []))),
            "time": bool(q.get("time")), "iface": bool(q.get("iface")), "dir": q.get("dir"),
            "nifaces": len(q.get("ifaces", [])), "cond": _shape(q.get("cond"))}


def run_replay(vh, sc, dbs, cases, tag):
    """run the cases on the real engine in NPROC harness processes; returns (failures, summaries)"""
    if not cases:
        return [], []
    n = min(NPROC, max(1, len(cases) // 200))
    chunks = [cases[i::n] for i in range(n)]
    procs = []
    for i, ch in enumerate(chunks):
        d = os.path.join(sc, "replay-%s-%d" % (tag, i))
        os.makedirs(d, exist_ok=True)
        inp = os.path.join(d, "cases.ndjson")
        with open(inp, "w") as fh:
            fh.write(json.dumps({"dbs": dbs}, separators=(",", ":")) + "\n")
            for c in ch:
                fh.write(json.dumps(c, separators=(",", ":")) + "\n")
        env = dict(os.environ, GOMAXPROCS="1")
        # output to files: a pipe would stall the processes that are not being read
        p = subprocess.Popen([vh, "query-replay", "-dir", os.path.join(d, "dbs")], stdin=open(inp), stdout=open(os.path.join(d, "stdout"), "w+"),
                             stderr=open(os.path.join(d, "stderr"), "w+"), text=True, env=env)
        p.errfile, p.outfile = os.path.join(d, "stderr"), os.path.join(d, "stdout")
        procs.append(p)
    fails, summ = [], []
    crashed = 0
    for pi, p in enumerate(procs):
        try:
            p.wait(timeout=2400)
        except subprocess.TimeoutExpired:
            p.kill()
            raise vlib.MachineryError("query-replay timed out")
        out = open(p.outfile).read()
        err = ""
        if p.returncode != 0:
            err = open(p.errfile, errors="replace").read()[-400000:]
        done = 0
        for line in out.splitlines():
            o = json.loads(line)
            if o.get("summary"):
                summ.append(o)
                done = o["cases"]
            elif o.get("ok") is False:
                fails.append(o)
        if p.returncode != 0:
            # a panic in a goroutine of the engine takes the whole harness process down: the case that was
            # running is the failing one, the rest of this chunk stays unprocessed
            marks = [ln for ln in err.splitlines() if ln.startswith("QCASE ")]
            tail = err[err.rfind("QCASE "):] if marks else err
            if marks and ("panic:" in tail or "fatal error:" in tail):
                c = chunks[pi][int(marks[-1].split()[1])]
                msg = tail[tail.find("\n") + 1:][:3000]
                fails.append({"ok": False, "id": -1, "kind": "crash", "msg": msg, "got": {"rows": [], "totals": [0, 0, 0, 0], "hits": 0, "ifaces": []},
                              "eq_prows": False, "case": c})
                crashed += 1
                summ.append({"cases": int(marks[-1].split()[1]) + 1, "rows": 0, "crashed": True})
                continue
            raise vlib.MachineryError("query-replay failed rc=%s: %s" % (p.returncode, err[-2000:]))
    if not crashed:
        vlib.require(sum(s["cases"] for s in summ) == len(cases), "replay did not process all cases")
    return fails, summ


MINCASES = {"cond": 1000, "pair": 460, "full": 4000}


def gen(vh, sc, name, genset, seed, nseeded, out, workers=4, timeout=1500):
    """TLC generates the cases of one family, then they are replayed on the real engine"""
    d = os.path.join(sc, "gen-" + name)
    os.makedirs(d, exist_ok=True)
    try:
        g = vlib.tlc("query", "QueryGen", "QueryGen.cfg", scratch=d, timeout=timeout, workers=workers,
                     consts='CONSTANT GenSet = "%s"\nCONSTANT Seed = %d\nCONSTANT NSeeded = %d' % (genset, seed, nseeded))
        vlib.expect_tlc_ok(g, "QueryGen " + name)
        if g.violation:
            raise vlib.MachineryError("QueryGen %s: %s" % (name, g.violation))
        vlib.require(g.infos and "dbs" in g.infos[0], "QueryGen %s printed no databases" % name)
        dbs = g.infos[0]["dbs"]
        cases = [c for t in g.traces for c in t]
        # TLC's workers print in no particular order: fix the order (the position decides e.g. on which side of the
        # condition the direction filter is written) so that a run is a function of the seed
        cases.sort(key=lambda c: json.dumps([c["db"], c["q"]], sort_keys=True))
        vlib.require(len(cases) >= MINCASES[name], "generator %s produced too few cases" % name)
        fails, summ = run_replay(vh, sc, dbs, cases, name)
        g.stdout = ""
        out[name] = (g, dbs, cases, fails, summ)
    except Exception as e:  # noqa
        out[name] = e


def backward(vh, sc, seed, plan, out):
    """seeded driver on the real engine, then TLC judges every logged event; the last event is a copy of an
    accepted one with one counter changed (negative control, must be the only extra mismatch)"""
    try:
        bdir = os.path.join(sc, "drive")
        os.makedirs(bdir)
        lines = []
        for size_, ndb, nq in plan:
            p = subprocess.run([vh, "query-drive", "-dir", os.path.join(bdir, "s%d" % size_), "-seed", str(seed * 10 + size_),
                                "-dbs", str(ndb), "-queries", str(nq), "-size", str(size_)], stdout=subprocess.PIPE,
                               stderr=subprocess.PIPE, text=True, env=dict(os.environ, GOMAXPROCS="1"))
            if p.returncode != 0:
                raise vlib.MachineryError("query-drive failed: " + p.stderr[-2000:])
            lines += p.stdout.splitlines()
        evs = [json.loads(x) for x in lines]
        # negative control event: the last non-empty result, one counter changed
        cand = [i for i, e in enumerate(evs) if e["ev"] == "Q" and e["hits"] > 0 and not e["err"]]
        vlib.require(cand, "driver produced no non-empty query result")
        i = cand[-1]
        vlib.require(all(e["ev"] == "Q" for e in evs[i:]), "negative control: wrong database")
        bad = json.loads(lines[i])
        bad["rows"][0]["ps"] += 1
        bad["neg"] = True
        lines.append(json.dumps(bad, separators=(",", ":")))
        t = vlib.tlc("query", "QueryTrace", "QueryTrace.cfg", workers=1, files={"trace.ndjson": "\n".join(lines) + "\n"},
                     scratch=os.path.join(sc, "drive"), timeout=2400, heap="12g")
        if t.error:
            raise vlib.MachineryError("QueryTrace: %s\n%s" % (t.error, t.stdout[-2000:]))
        t.stdout = ""
        out["B"] = (t, evs, i)
    except Exception as e:  # noqa
        out["B"] = e


def mc(sc, name, cfg, consts, out, coverage=False, workers=4, timeout=1500):
    d = os.path.join(sc, "mc-" + name)
    os.makedirs(d, exist_ok=True)
    try:
        out[name] = vlib.tlc("query", "QueryMC", cfg, scratch=d, timeout=timeout, workers=workers, coverage=coverage, consts=consts)
    except Exception as e:  # noqa
        out[name] = e


def main():
    run = vlib.Run("C08", "model_checking")
    thorough = run.tier == "thorough"
    vh = vlib.build_vh("query")
    classes = {}

    def report(desc, rep):
        key = json.dumps(desc, sort_keys=True)
        classes[key] = classes.get(key, 0) + 1
        run.violation(desc, rep)

    with vlib.Scratch("verif-c08-") as sc:
        # ---------------------------------------------------------------- everything runs side by side
        res = {}
        size = "thorough" if thorough else "quick"
        T = threading.Thread
        jobs = [
            T(target=gen, args=(vh, sc, "cond", "cond-thorough" if thorough else "cond-quick", run.seed, 1, res),
              kwargs={"workers": 8 if thorough else 6, "timeout": 2400}),
            T(target=mc, args=(sc, "sound", "QueryMC.cfg", 'CONSTANT MCSize = "%s"' % size, res),
              kwargs={"coverage": True, "workers": 6 if thorough else 4}),
            T(target=backward, args=(vh, sc, run.seed, [(1, 12, 60), (2, 8, 50), (3, 3, 40)] if thorough else [(1, 5, 30), (2, 2, 30)], res)),
            T(target=gen, args=(vh, sc, "pair", "pair", run.seed, 20 if thorough else 4, res)),
            T(target=mc, args=(sc, "asbuilt", "QueryMCAsBuilt.cfg", 'CONSTANT MCSize = "quick"', res), kwargs={"workers": 2}),
        ]
        if thorough:
            jobs.append(T(target=mc, args=(sc, "deep", "QueryMC.cfg", 'CONSTANT MCSize = "deep"\nCONSTANT NWorkers = 2', res)))
            jobs.append(T(target=mc, args=(sc, "off", "QueryMC.cfg", 'CONSTANT MCSize = "quick"\nCONSTANT Pruning = "off"', res)))
            jobs.append(T(target=gen, args=(vh, sc, "full", "full", run.seed, 2, res)))
        for j in jobs:
            j.start()
        for j in jobs:
            j.join()
        for k, v in res.items():
            if isinstance(v, vlib.MachineryError):
                raise v
            if isinstance(v, Exception):
                raise vlib.MachineryError("job %s: %r" % (k, v))

        # ---------------------------------------------------------------- M
        r = vlib.expect_tlc_ok(res["sound"], "QueryMC")
        if r.violation:
            raise vlib.MachineryError("QueryPipeline with sound pruning violates %s (spec error, not a code verdict)\n%s"
                                      % (r.violation, "\n".join(r.cex[:40])))
        for a in ("CreateWM", "Start", "Take", "Scan", "FinishIface", "MergeOne", "Finish"):
            vlib.require(r.coverage.get(a, (0, 0))[0] > 0, "vacuous: action %s never taken" % a)
        run.add_tlc(r, "QueryMC/" + size)
        for name in ("deep", "off"):
            if name in res:
                r = vlib.expect_tlc_ok(res[name], "QueryMC " + name)
                if r.violation:
                    raise vlib.MachineryError("QueryPipeline (%s) violates %s (spec error)" % (name, r.violation))
                run.add_tlc(r, "QueryMC/" + name)
        a = res["asbuilt"]
        if a.error:
            raise vlib.MachineryError("QueryMCAsBuilt: %s" % a.error)
        vlib.require(a.violation == "PipelineEqualsDefinition",
                     "negative run: the as-built pruning model must violate PipelineEqualsDefinition (invariant vacuous?)")
        run.cov["model_candidate"] = "as-built IP family pruning violates PipelineEqualsDefinition on the model (decided by F below)"
        run.add_tlc(a, "QueryMCAsBuilt (expected violation)")

        # ---------------------------------------------------------------- F
        first_ok = None
        for name in ("cond", "pair", "full"):
            if name not in res:
                continue
            g, dbs, cases, fails, summ = res[name]
            run.add_tlc(g, "QueryGen/" + name)
            run.count(len(cases))
            run.cov["traces_validated_against_impl"] += len(cases)
            for c in cases:
                if c["exp"]["hits"] > 0:
                    run.distinct(json.dumps([c["db"], c["q"]], sort_keys=True))
            run.cov.setdefault("forward", {})[name] = {"cases": len(cases), "failed": len(fails), "rows_returned": sum(s["rows"] for s in summ),
                                                         "pruning_sensitive": sum(1 for c in cases if c["ptag"] != "same"),
                                                         "nonempty_expected": sum(1 for c in cases if c["exp"]["hits"] > 0)}
            if first_ok is None:
                failed = {json.dumps(f["case"], sort_keys=True) for f in fails}
                for c in cases:
                    if c["exp"]["hits"] > 1 and c["class"] != "z" and json.dumps(c, sort_keys=True) not in failed:
                        first_ok = (dbs, c)
                        break
            mid = cases[len(cases) // 2]
            run.sample({"kind": "forward case " + name, "db": mid["db"], "q": {k: v for k, v in mid["q"].items() if k != "cond"},
                        "expected_hits": mid["exp"]["hits"]})
            for f in sorted(fails, key=lambda f: json.dumps(f["case"], sort_keys=True)):
                c = f["case"]
                desc = classify(c["q"], c["exp"]["rows"], f.get("got", {}), f["kind"], c.get("ptag"), c.get("prows", []), c.get("hinge", False))
                desc["binding"] = "F"
                report(desc, {"kind": "query-replay", "dbs": {c["db"]: dbs[c["db"]]}, "case": c, "text": f.get("text"),
                              "qtype": f.get("qtype"), "got": f.get("got"), "msg": f.get("msg", "")[:1500]})
        # negative control of the binding: corrupted expectations must be rejected, the original accepted
        vlib.require(first_ok is not None, "no case for the negative control")
        dbs0, c0 = first_ok
        bad1 = json.loads(json.dumps(c0))
        bad1["exp"]["rows"][0]["br"] += 1
        bad2 = json.loads(json.dumps(c0))
        bad2["exp"]["rows"] = bad2["exp"]["rows"][1:]
        bad3 = json.loads(json.dumps(c0))
        bad3["exp"]["totals"][2] += 1
        nfails, _ = run_replay(vh, sc, dbs0, [c0, bad1, bad2, bad3], "neg")
        kinds = sorted((f["id"], f["kind"]) for f in nfails)
        vlib.require(kinds == [(1, "rows"), (2, "rows"), (3, "totals")],
                     "negative control: corrupted expectations not rejected as expected: %s" % kinds)
        run.cov["negative_control_F"] = "corrupted counter / dropped row / corrupted totals rejected, the unmodified case accepted"

        # ---------------------------------------------------------------- B
        t, evs, negsrc = res["B"]
        vlib.require(t.violation is None, "QueryTrace did not consume the trace: %s" % t.violation)
        run.add_tlc(t, "QueryTrace")
        nq = sum(1 for e in evs if e["ev"] == "Q")
        run.count(nq)
        run.cov["traces_validated_against_impl"] += nq
        negline = len(evs) + 1
        mism = [m for m in t.mismatches if m.get("line") != negline]
        vlib.require(len(mism) == len(t.mismatches) - 1, "negative control: corrupted logged row was accepted by QueryTrace")
        run.cov["negative_control_B"] = "copy of event %d with one counter changed rejected" % (negsrc + 1)
        run.cov["backward"] = {"events": len(evs), "queries": nq, "mismatches": len(mism),
                               "max_records_per_db": max([e.get("records", 0) for e in evs if e["ev"] == "DB"] or [0]),
                               "rows_logged": sum(len(e.get("rows", [])) for e in evs if e["ev"] == "Q")}
        for e in evs:
            if e["ev"] == "Q" and e["hits"] > 0:
                run.distinct(json.dumps(e["q"], sort_keys=True))
        run.sample({"kind": "driver event", "qtype": evs[negsrc]["qtype"], "condition": evs[negsrc]["text"], "hits": evs[negsrc]["hits"]})
        cur = None
        dbat = {}
        for i, e in enumerate(evs):
            if e["ev"] == "DB":
                cur = e
            dbat[i + 1] = cur
        for mm in mism:
            ln = mm.get("line", 0)
            e = evs[ln - 1]
            got = {"rows": e["rows"], "totals": e["totals"], "hits": e["hits"], "ifaces": e["ifaces"]}
            exp = mm["exp"]
            if e.get("err"):
                kind = "error"
            elif not _same_rows(exp["rows"], got["rows"]):
                kind = "rows"
            elif exp["totals"] != got["totals"]:
                kind = "totals"
            elif exp["hits"] != got["hits"]:
                kind = "hits"
            else:
                kind = "ifaces"
            pr = mm.get("pruned", [])
            ptag = "same" if _same_rows(pr, exp["rows"]) else ("neq" if mm.get("neqfixed") else "or")
            desc = classify(e["q"], exp["rows"], got, kind, ptag, pr, bool(mm.get("hinge")) and ptag != "same")
            desc["binding"] = "B"
            case = {"db": "d", "q": e["q"], "exp": exp, "ptag": ptag, "prows": pr, "class": "drive", "hinge": bool(mm.get("hinge"))}
            report(desc, {"kind": "query-replay", "dbs": {"d": dbat[ln]["db"]}, "case": case, "text": e.get("text"),
                          "qtype": e.get("qtype"), "got": got, "msg": e.get("err", "")[:1500]})

    if classes:
        run.cov["mismatch_classes"] = {k: v for k, v in sorted(classes.items())}
    run.cov["rule"] = ("evaluations = queries run on the real engine; distinct = distinct (database, query) pairs whose expected "
                       "result is non-empty; F: cond = all trees of height <= 2 over %s core atoms, pair = pairwise design (112 "
                       "queries per seeded database, plus 16 cases with low-zero IPv6 addresses), full = full product (thorough); B: seeded driver"
                       % ("six" if thorough else "four"))
    run.assumptions += ["block timestamps are multiples of 300 s (time binning is C13)",
                        "rows are compared on the requested attributes and labels only; Labels.Iface is compared when the iface label "
                        "is requested or several interfaces are queried",
                        "'a != v' selects exactly the flows 'a = v' does not (reading adopted for C09)",
                        "the B driver does not draw IPv6 addresses with twelve trailing zero bytes (covered by F class z)",
                        "counters stay below 2^31 (TLC integers)"]
    return run.finish()


def replay(path):
    d = json.load(open(path))["replay"]
    vh = vlib.build_vh("query")
    with vlib.Scratch("verif-c08-replay-") as sc:
        fails, _ = run_replay(vh, sc, d["dbs"], [d["case"]], "r")
        print(json.dumps([{k: v for k, v in f.items() if k != "case"} for f in fails], indent=1)[:4000])
        print("condition: %s   query type: %s" % (d.get("text"), d.get("qtype")))
        return 1 if fails else 0
