"""C28 - time arguments parse to the instant they denote.

M  TimeArgMC: the relative grammar (-XdYhZm, both spellings, padded or not) over {absent,0,1,7,45}^3 with its
   denotation and unambiguity, the range rule over all pairs of 11 bounds x 2 range functions, and the
   dispatch rule (digits => epoch, otherwise first accepting layout wins) over all accept relations of 3
   abstract layouts: the uniqueness-conditioned round-trip law follows from the dispatch rule.
F  TimeArgGen: every relative specification, malformed relative text and range pair is executed on
   ParseTimeArgument / ParseTimeRange / ParseTimeRangeCollectErrors (now bracketed by two clock reads).
B  TimeArgTrace: instants 1970..2068 (pivots, day<=12, DST gaps/overlaps, 2^31, seeded random) are formatted
   under each of the 50 documented layouts (list taken from the spec) with several zone offsets, in child
   processes with TZ = Europe/Zurich, America/Los_Angeles, Asia/Tehran, UTC; every ParseTimeArgument call is
   logged with the trusted-base accept relation and judged by TLC against dispatch + round-trip law.
"""
import json
import os
import random
import subprocess
import vlib

MANIFEST = {
    "level": "exploration",
    "technique": "TLA+ spec TimeArg: dispatch order, relative grammar, range rule and uniqueness-conditioned round-trip law; "
                 "TLC-generated relative/range cases replayed on pkg/query; recorded ParseTimeArgument calls over layouts x "
                 "instants x offsets x local zones validated by TLC",
    "text": "TimeArg.tla carries the documented layout list, the dispatch rule, the relative grammar with its denotation and the "
            "range rule; TLC checks that the round-trip law follows from the dispatch rule, generates all relative and range "
            "cases for replay on the real parser, and judges every recorded ParseTimeArgument call (text, accepting layouts "
            "per Go's time package, result) against the rule.",
    "note": "Calendar and zone arithmetic and 'layout L accepts text x as instant u' come from Go's time package (trusted base). "
            "Instants are sampled (pivots, DST transitions, day<=12, seeded random), layouts and relative forms are complete. "
            "Empty intervals and malformed relative texts are not judged (beyond not crashing).",
    "ref": "6.4",
}

ZONES = ["Europe/Zurich", "America/Los_Angeles", "Asia/Tehran", "UTC"]
VIOLATION_CLASSES = ("roundtrip", "rejected", "foreign", "epoch")


def _drive(vh, sc, layouts_file, zone, seed, thorough):
    out = os.path.join(sc, "trace-%s.ndjson" % zone.replace("/", "_"))
    args = [vh, "timearg-drive", "-seed", str(seed), "-layouts", layouts_file]
    if thorough:
        args += ["-n", "300", "-daymonth", "144", "-offs", "4", "-dstyears", "1980,1996,2007,2021,2030,2037"]
    else:
        args += ["-n", "40", "-daymonth", "16", "-offs", "2", "-dstyears", "1996,2021,2037"]
    with open(out, "w") as fh:
        p = subprocess.run(args, stdout=fh, stderr=subprocess.PIPE, text=True, env=dict(os.environ, TZ=zone), timeout=1200)
    if p.returncode != 0:
        raise vlib.MachineryError("timearg-drive (%s) failed: %s" % (zone, p.stderr[-2000:]))
    return out


def _validate(sc, lines, label, run=None):
    t = vlib.tlc("timearg", "TimeArgTrace", "TimeArgTrace.cfg", workers=1, files={"trace.ndjson": "\n".join(lines) + "\n"},
                 scratch=sc, timeout=2400, heap="12g")
    if t.error or t.violation:
        raise vlib.MachineryError("TimeArgTrace (%s): %s %s\n%s" % (label, t.error, t.violation, t.stdout[-2000:]))
    if run is not None:
        run.add_tlc(t, "TimeArgTrace " + label)
    return t


def main():
    run = vlib.Run("C28", "exploration")
    thorough = run.tier == "thorough"
    vh = vlib.build_vh("timearg", tags=("verif", "timetzdata"))
    with vlib.Scratch("verif-c28-") as sc:
        # ---- M
        r = vlib.tlc("timearg", "TimeArgMC", "TimeArgMC.cfg", coverage=True, scratch=sc, timeout=600)
        vlib.expect_tlc_ok(r, "TimeArgMC")
        if r.violation:
            raise vlib.MachineryError("TimeArg rules violate %s (spec error, not a code verdict)" % r.violation)
        for a in ("MCRelative", "MCMalformed", "MCRange", "MCAbsolute"):
            vlib.require(r.coverage.get(a, (0, 0))[0] > 0, "vacuous: action %s never taken" % a)
        run.add_tlc(r, "TimeArgMC")

        # ---- F: relative grammar and range rule
        g = vlib.tlc("timearg", "TimeArgGen", "TimeArgGen.cfg", scratch=sc, timeout=600)
        vlib.expect_tlc_ok(g, "TimeArgGen")
        run.add_tlc(g, "TimeArgGen")
        cases = g.traces
        vlib.require(len(cases) == 496 + 9 + 220 and g.infos, "generator produced %d cases" % len(cases))
        layouts = g.infos[0]["layouts"]
        vlib.require(len(layouts) == 50, "specification lists %d layouts" % len(layouts))
        layouts_file = os.path.join(sc, "layouts.json")
        json.dump(layouts, open(layouts_file, "w"))

        def replay_f(cs):
            rc, outs, _ = vlib.run_vh(vh, ["timearg-replay"], stdin_lines=[json.dumps(b, separators=(",", ":")) for b in cs])
            summ = [o for o in outs if o.get("summary")]
            vlib.require(summ and summ[0]["behaviours"] == len(cs), "timearg-replay did not process all cases")
            return [o for o in outs if o.get("ok") is False], summ[0]

        fails, summ = replay_f(cases)
        run.count(summ["steps"])
        run.cov["traces_validated_against_impl"] += len(cases)
        run.cov["forward_cases"] = summ["per_action"]
        for b in cases:
            a = b[0]["act"]
            run.distinct("F|" + a.get("text", "") + "|" + a.get("fn", "") + "|" + a.get("first", "") + "|" + a.get("last", ""))
        run.sample({"kind": "TLC relative case", "text": cases[300][0]["act"]["text"], "expected": cases[300][0]["exp"]})
        groups = {}
        for o in fails:
            groups.setdefault(json.dumps(o["desc"], sort_keys=True), []).append(o)
        for key in sorted(groups):
            first = groups[key][0]
            run.violation(first["desc"], {"kind": "timearg-replay", "cases": len(groups[key]), "msg": first["msg"][:1500],
                                          "behaviour": first["behaviour"]})
        # negative control F: corrupted expectations must be rejected
        rng = random.Random(1000 + run.seed)
        bad = []
        failing = {json.dumps(o["behaviour"], sort_keys=True) for o in fails}
        okc = [b for b in cases if json.dumps(b, sort_keys=True) not in failing]
        for b in rng.sample([b for b in okc if b[0]["act"]["name"] == "ParseRelative"], 6):
            c = json.loads(json.dumps(b)); c[0]["exp"]["delta"] += 60; bad.append(c)
        for b in rng.sample([b for b in okc if b[0]["act"]["name"] == "ParseRange" and b[0]["exp"]["verdict"] != "unspecified"], 6):
            c = json.loads(json.dumps(b))
            c[0]["exp"]["verdict"] = "accept" if c[0]["exp"]["verdict"] == "reject" else "reject"
            bad.append(c)
        nf, _ = replay_f(bad)
        vlib.require(len(nf) == len(bad), "negative control F: %d of %d corrupted cases accepted" % (len(bad) - len(nf), len(bad)))

        # ---- B: recorded ParseTimeArgument calls, one child per local zone
        all_lines, per_zone = [], {}
        for z in ZONES:
            f = _drive(vh, sc, layouts_file, z, run.seed, thorough)
            lines = open(f).read().splitlines()
            vlib.require(len(lines) > 3000, "driver produced too few events for %s" % z)
            per_zone[z] = lines
        batches = [(z, per_zone[z]) for z in ZONES] if thorough else [("all zones", sum((per_zone[z] for z in ZONES), []))]
        flagged_lines = set()
        stats = {"events": 0, "twin": 0, "several_layouts_accept": 0, "epoch": 0, "order_drift": 0, "axiom": 0}
        bgroups = {}
        for label, lines in batches:
            t = _validate(sc, lines, label, run)
            vlib.require(t.distinct == len(lines) + 1, "TimeArgTrace consumed %d of %d events" % (t.distinct - 1, len(lines)))
            stats["events"] += len(lines)
            run.count(len(lines))
            for x in lines:
                e = json.loads(x)
                stats["twin"] += 1 if e["twin"] else 0
                stats["several_layouts_accept"] += 1 if len(e["acc"]) > 1 else 0
                stats["epoch"] += 1 if e["layout"] == 0 else 0
                run.distinct("B|%d|%s" % (e["layout"], e["text"]))
                if e.get("panic"):
                    d = {"binding": "B", "cls": "panic", "layout": layouts[e["layout"] - 1]["fmt"] if e["layout"] else "epoch"}
                    bgroups.setdefault(json.dumps(d, sort_keys=True), []).append((d, e, None))
            for m in t.mismatches:
                e = json.loads(lines[m["line"] - 1])
                flagged_lines.add(lines[m["line"] - 1])
                if m["cls"] == "order":
                    stats["order_drift"] += 1
                    run.drift.append({"cls": "order", "text": e["text"], "tz": e["tz"], "got": e["got"], "acc": e["acc"]})
                elif m["cls"] == "axiom":
                    stats["axiom"] += 1
                    run.note("trusted base: layout %r does not read %r back as %s (tz %s)" %
                             (layouts[e["layout"] - 1]["fmt"], e["text"], e["t"], e["tz"]))
                elif m["cls"] in VIOLATION_CLASSES:
                    d = {"binding": "B", "cls": m["cls"], "layout": layouts[e["layout"] - 1]["fmt"] if e["layout"] else "epoch",
                         "tz": e["tz"], "written": "local" if e["off"] == "local" else "epoch" if e["off"] == "epoch" else "offset"}
                    bgroups.setdefault(json.dumps(d, sort_keys=True), []).append((d, e, m))
                else:
                    raise vlib.MachineryError("unknown mismatch class %r" % m["cls"])
            all_lines += lines
        for key in sorted(bgroups):
            d, e, m = bgroups[key][0]
            run.violation(d, {"kind": "timearg-trace", "cases": len(bgroups[key]), "event": e, "model": m,
                              "cmd": "TZ=%s vh timearg-drive -seed %d ... ; ParseTimeArgument(%r)" % (e["tz"], run.seed, e["text"])})
        run.cov["traces_validated_against_impl"] += len(ZONES)
        run.cov["trace"] = stats
        mid = json.loads(all_lines[len(all_lines) // 3])
        run.sample({"kind": "recorded call", "tz": mid["tz"], "text": mid["text"], "accepting_layouts": mid["acc"], "got": mid["got"]})
        vlib.require(stats["twin"] > 0 and stats["several_layouts_accept"] > 0 and stats["epoch"] > 0,
                     "driver did not reach DST overlaps / ambiguous texts / epoch texts")

        # negative control B: corrupted results must be flagged by the trace specification
        clean = [x for x in all_lines if x not in flagged_lines and '"panic"' not in x]
        rng = random.Random(2000 + run.seed)
        picks = rng.sample(range(len(clean)), 6)
        neg, want = [], []
        for k, i in enumerate(picks):
            e = json.loads(clean[i])
            if k % 3 == 0:
                e["got"] = {"ok": True, "u": str(int(e["got"]["u"] or "0") + 3600)}
            elif k % 3 == 1:
                e["got"] = {"ok": False, "u": ""}
            else:
                e["got"] = {"ok": True, "u": str(int(e["got"]["u"] or "0") - 60)}
            neg.append(json.dumps(e))
        neg += clean[:50]
        n = _validate(sc, neg, "negative control")
        flagged = {m["line"] for m in n.mismatches if m["cls"] in VIOLATION_CLASSES}
        vlib.require(flagged == set(range(1, 7)), "negative control B: corrupted events %s flagged, expected 1..6" % sorted(flagged))
        run.cov["negative_control"] = "F: 12 corrupted expectations rejected; B: 6 corrupted results flagged, 50 clean events accepted"

    run.cov["rule"] = ("distinct = distinct relative/range texts replayed (F) + distinct (layout, text) pairs recorded (B); "
                       "%s random instants per zone, offsets per layout %s" % (("300", "4") if thorough else ("40", "2")))
    run.assumptions += ["Go's time package is the trusted base for Format/ParseInLocation (calendar and zone arithmetic)",
                        "instants lie between 1970-01-02 and 2068-12-30 so that the written year stays inside 1970..2068 in every zone",
                        "a text valid under several layouts with different instants is exempt (statement); choosing another than the "
                        "first accepting layout is drift, not a violation",
                        "local times that two instants share (DST overlap) are exempt from the round-trip law",
                        "empty intervals (first = last) and malformed relative texts are not judged"]
    return run.finish(exhaustive=False)


def replay(path):
    d = json.load(open(path))["replay"]
    vh = vlib.build_vh("timearg", tags=("verif", "timetzdata"))
    if d["kind"] == "timearg-replay":
        rc, outs, _ = vlib.run_vh(vh, ["timearg-replay"], stdin_lines=[json.dumps(d["behaviour"])])
        bad = [o for o in outs if o.get("ok") is False]
        for o in bad:
            o.pop("behaviour", None)
        print(json.dumps(bad or outs, indent=1)[:3000])
        return 1 if bad else 0
    print("re-run: " + d.get("cmd", "./check C28"))
    return 2
