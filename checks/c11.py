"""C11 - query results do not depend on parallelism or memory mode, and queries end.

M  WorkQueue: producer (CreateWorkerJobs: W workloads into a channel of capacity Q*N, then close), N workers
   started by a separate action, aggregator; invariants FinalEqualsSum / Conservation for every consumption
   and merge order, liveness Termination under weak fairness, N in 1..3, W in 0..7 (Q = 2 stands for 64).
   The order the property needs (workers exist while workloads are produced) passes; the as-built order
   (all workloads produced before the first worker exists) passes for W <= Q*N and deadlocks for W > Q*N -
   a candidate that is decided on the real engine.
F1 equality: one database with hundreds of day directories (several workloads per interface) is queried by
   child processes under `taskset -c 0-(k-1)` (k = runtime.NumCPU = worker count) for k in {1,2,4,8,16},
   low-memory on/off, GOMAXPROCS in {1,k}; every result is judged by TLC against Query!Result.
F2 termination: a database with thousands of day directories (one tiny block each) is queried with a single
   CPU over D = 64*32*k +- 1 day directories; a query that does not return within the limit is sent SIGQUIT
   and the goroutine dump must show the send in CreateWorkerJobs blocked with no worker alive (then no
   goroutine can ever receive from that channel: the query never ends).
"""
import json
import os
import re
import shutil
import signal
import subprocess
import tempfile
import threading
import time
import vlib

MANIFEST = {
    "level": "model_checking",
    "technique": "TLA+ spec WorkQueue: TLC exhaustive incl. liveness + real engine in child processes under taskset "
                 "(worker count 1..16, low-memory, GOMAXPROCS) judged by TLC against Query!Result + termination runs at the "
                 "channel-capacity boundary with goroutine dumps",
    "text": "WorkQueue.tla models producer, N workers and aggregator of a query; TLC checks FinalEqualsSum for every consumption "
            "and merge order and Termination under weak fairness for N in 1..3 and W in 0..7 workloads (scaled capacity). "
            "The real engine is run in child processes pinned to k CPUs (k = worker count 1..16), low-memory on/off, GOMAXPROCS 1/k; "
            "every result must equal the specification's Result(db,q). Databases with 64*32*k +- 1 day directories are queried "
            "with k CPUs; every query must return, a hang counts only with a goroutine dump proving the blocked channel send.",
    "note": "Worker counts are set through CPU affinity (runtime.NumCPU), schedules are perturbed only through GOMAXPROCS and "
            "repetition - not enumerated. A query that exceeds the time limit without the dump proof is reported as inconclusive "
            "(exit 2), never as a violation.",
    "ref": "6.3",
}

DAY0 = 1262304000      # harness/internal/workqueue.Day0
NCPU = os.cpu_count() or 1


# ----------------------------------------------------------------------------- goroutine dumps

def parse_dump(text):
    """goroutine dump -> list of (state, [function names])"""
    gs = []
    for blk in re.split(r"\n\s*\n(?=goroutine \d+ )", text):
        m = re.match(r"goroutine (\d+)(?: gp=\S+ m=\S+(?: mp=\S+)?)? \[([^\]]*)\]:", blk.strip())
        if not m:
            continue
        funcs = [ln.strip() for ln in blk.splitlines()[1:] if ln and not ln.startswith("\t")]
        gs.append((m.group(2), funcs, blk))
    return gs


def abstract_dump(text):
    """the model's view of a dump: where the producer is, how many workers exist, what the aggregator does"""
    gs = parse_dump(text)
    st = {"producer": "absent", "workers": 0, "aggregator": "absent", "goroutines": len(gs)}
    keep = []
    for state, funcs, blk in gs:
        joined = " ".join(funcs)
        if "CreateWorkerJobs" in joined:
            st["producer"] = "blocked-send" if state.startswith("chan send") else "running"
            # the goroutine that would start the workers afterwards (RunStatement -> ExecuteWorkerReadJobs) is the blocked one
            st["producer_is_caller_of_workers"] = "RunStatement" in joined
            keep.append(blk)
        if "grabAndProcessWorkload" in joined:
            st["workers"] += 1
            keep.append(blk)
        if "ExecuteWorkerReadJobs" in joined:
            st["executing"] = True
            keep.append(blk)
        if "QueryRunner).aggregate" in joined:
            st["aggregator"] = "waiting-receive" if state.startswith("chan receive") else state
            keep.append(blk)
    return st, "\n\n".join(keep)


def deadlock_proven(st):
    # the only receivers of the work channel are the workers, which the blocked goroutine itself starts later
    return (st["producer"] == "blocked-send" and st.get("producer_is_caller_of_workers") and st["workers"] == 0
            and not st.get("executing"))


# ----------------------------------------------------------------------------- children

def last_dump(err):
    i = err.rfind("WQ-DUMP-BEGIN")
    j = err.rfind("WQ-DUMP-END")
    return err[i + 14:j] if 0 <= i < j else ""


def child(vh, cpus, db, queries, lowmem=False, gomaxprocs=None, limit=600, env_extra=None, reps=1, probe=None, workdir=None):
    """run wq-query pinned to the CPU list.  probe: seconds after which (and then again and again) the child is asked
    (SIGUSR1) for the stacks of its goroutines; two consecutive dumps that prove a permanent block end the wait early.
    Returns dict(events, timeout, secs, stderr, proven)."""
    env = dict(os.environ, GOTRACEBACK="all")
    env.pop("GOMAXPROCS", None)
    if gomaxprocs:
        env["GOMAXPROCS"] = str(gomaxprocs)
    if env_extra:
        env.update(env_extra)
    cmd = ["taskset", "-c", cpus, vh, "wq-query", "-db", db, "-reps", str(reps)] + (["-lowmem"] if lowmem else [])
    wd = tempfile.mkdtemp(prefix="child-", dir=workdir)
    fo, fe = open(os.path.join(wd, "out"), "w+"), open(os.path.join(wd, "err"), "w+")
    t0 = time.time()
    p = subprocess.Popen(cmd, stdin=subprocess.PIPE, stdout=fo, stderr=fe, text=True, env=env)
    p.stdin.write("".join(json.dumps(q) + "\n" for q in queries))
    p.stdin.close()
    to, proven, nproofs = False, False, 0
    nextprobe = t0 + probe if probe else None
    while True:
        try:
            p.wait(timeout=0.25)
            break
        except subprocess.TimeoutExpired:
            pass
        now = time.time()
        if nextprobe and now >= nextprobe and "WQ-READY" in open(os.path.join(wd, "err"), errors="replace").read():
            ndumps = open(os.path.join(wd, "err"), errors="replace").read().count("WQ-DUMP-END")
            p.send_signal(signal.SIGUSR1)
            t1 = time.time()
            while time.time() - t1 < 30 and open(os.path.join(wd, "err"), errors="replace").read().count("WQ-DUMP-END") == ndumps \
                    and p.poll() is None:
                time.sleep(0.2)
            st, _ = abstract_dump(last_dump(open(os.path.join(wd, "err"), errors="replace").read()))
            nproofs = nproofs + 1 if deadlock_proven(st) else 0
            nextprobe = time.time() + (3.0 if nproofs else probe)
            if nproofs >= 2:
                proven = True
        if proven or now - t0 > limit:
            to = True
            p.send_signal(signal.SIGQUIT)
            try:
                p.wait(timeout=60)
            except subprocess.TimeoutExpired:
                p.kill()
                p.wait()
            break
    secs = time.time() - t0
    fo.close()
    fe.close()
    out, err = open(os.path.join(wd, "out")).read(), open(os.path.join(wd, "err")).read()
    shutil.rmtree(wd, ignore_errors=True)
    evs = []
    for ln in out.splitlines():
        try:
            evs.append(json.loads(ln))
        except Exception:
            pass
    return {"events": evs, "timeout": to, "secs": secs, "stderr": err, "rc": p.returncode}


def _wait_for(path, token, secs):
    t0 = time.time()
    while time.time() - t0 < secs:
        if token in open(path, errors="replace").read():
            return True
        time.sleep(0.2)
    return False


def idle_dump(vh, workdir):
    """negative control for the dump classifier: a healthy child (waiting for its first query) is asked for its stacks"""
    env = dict(os.environ, GOTRACEBACK="all")
    ef = os.path.join(workdir, "idle.err")
    with open(ef, "w+") as fe:
        p = subprocess.Popen(["taskset", "-c", "0", vh, "wq-query", "-db", "/nonexistent"], stdin=subprocess.PIPE,
                             stdout=subprocess.DEVNULL, stderr=fe, text=True, env=env)
        try:
            vlib.require(_wait_for(ef, "WQ-READY", 120), "idle child did not get ready")
            p.send_signal(signal.SIGUSR1)
            vlib.require(_wait_for(ef, "WQ-DUMP-END", 120), "idle child did not dump its stacks")
        finally:
            try:
                p.stdin.close()
                p.wait(timeout=30)
            except Exception:  # noqa
                p.kill()
    return last_dump(open(ef, errors="replace").read())


def days_query(d):
    return {"ifaces": ["e0"], "attrs": ["dport"], "time": False, "iface": False, "cond": {"k": "true"},
            "first": DAY0, "last": DAY0 + (d - 1) * 86400 + 300, "dir": "none"}


def eq_queries(days):
    end = DAY0 + days * 86400
    v4a = [10, 200, 0, 1]
    v6p = [32, 1] + [0] * 13 + [1]
    atom = lambda attr, cmp_, b, n: {"k": "atom", "attr": attr, "cmp": cmp_, "b": b, "n": n, "sym": ""}   # noqa
    return [
        {"ifaces": ["e0", "e1"], "attrs": ["sip", "dip", "dport", "proto"], "time": True, "iface": False, "cond": {"k": "true"},
         "first": DAY0 - 1000, "last": end, "dir": "none"},
        {"ifaces": ["e0", "e1"], "attrs": ["dport"], "time": False, "iface": True, "cond": atom("proto", "=", [], 6),
         "first": DAY0 + (days // 3) * 86400 + 300, "last": DAY0 + (2 * days // 3) * 86400 + 43199, "dir": "bi"},
        {"ifaces": ["e0"], "attrs": ["sip"], "time": False, "iface": False,
         "cond": {"k": "or", "l": atom("sip", "=", v4a, 0), "r": atom("sip", "=", v6p, 0)},
         "first": DAY0 - 1000, "last": end, "dir": "none"},
        {"ifaces": ["e1", "e0"], "attrs": ["dip", "proto"], "time": False, "iface": False,
         "cond": {"k": "not", "x": atom("dport", "<", [], 256)},
         "first": DAY0, "last": DAY0 + (days // 2) * 86400, "dir": "none"},
        # network conditions with prefixes that are not byte aligned: the instrumented condition tree is one
        # object shared by all workers, whatever it needs for masking must not be shared state
        {"ifaces": ["e0", "e1"], "attrs": ["sip", "dip"], "time": True, "iface": False,
         "cond": {"k": "or", "l": atom("snet", "=", [10, 128, 0, 0], 9),
                  "r": {"k": "and", "l": atom("dnet", "!=", [10, 0, 0, 0], 9), "r": atom("snet", "=", [32, 1] + [0] * 14, 15)}},
         "first": DAY0 - 1000, "last": end, "dir": "none"},
    ]


def _reskey(e):
    rows = sorted(json.dumps(r, sort_keys=True) for r in e["rows"])
    return json.dumps([e["q"], rows, e["totals"], e["hits"], sorted(e["ifaces"]), e["err"]], sort_keys=True)


def main():
    run = vlib.Run("C11", "model_checking")
    thorough = run.tier == "thorough"
    vh = vlib.build_vh("workqueue")
    res = {}

    def tlcjob(name, module, cfg, consts, **kw):
        def f():
            try:
                d = os.path.join(sc, "tlc-" + name)
                os.makedirs(d, exist_ok=True)
                res[name] = vlib.tlc("workqueue", module, cfg, scratch=d, consts=consts, timeout=1500, **kw)
            except Exception as e:  # noqa
                res[name] = e
        return threading.Thread(target=f)

    with vlib.Scratch("verif-c11-") as sc:
        wset = "{0, 1, 2, 3, 4, 5, 6, 7}" if thorough else "{0, 1, 2, 3, 4, 5}"
        jobs = [tlcjob("design", "WorkQueue", "WorkQueueMC.cfg", "CONSTANT WSet = %s" % wset, coverage=True, workers=6),
                tlcjob("over", "WorkQueuePredict", "WorkQueueAsBuilt.cfg", None, workers=1)]
        if thorough:
            jobs.append(tlcjob("two-ifaces", "WorkQueue", "WorkQueueMC.cfg",
                               "CONSTANT NIfaces = 2\nCONSTANT LowMem = TRUE\nCONSTANT WSet = {0, 1, 3, 5}\nCONSTANT MapCap = 1", workers=4))
        for j in jobs:
            j.start()

        # ---------------------------------------------------------------- F2: termination
        ddb = os.path.join(sc, "days")
        ndays = 4100 if thorough else 2100
        p = subprocess.run([vh, "wq-days", "-dir", ddb, "-days", str(ndays)], stdout=subprocess.PIPE, stderr=subprocess.PIPE, text=True)
        if p.returncode != 0:
            raise vlib.MachineryError("wq-days failed: " + p.stderr[-2000:])
        days_dbev = p.stdout.strip()
        base = child(vh, "0", ddb, [days_query(2000)], limit=900, workdir=sc)
        vlib.require(not base["timeout"] and base["events"] and not base["events"][0]["err"],
                     "baseline query over 2000 day directories failed: %s" % base["stderr"][-500:])
        vlib.require(base["events"][0]["numcpu"] == 1, "taskset did not restrict the child to one CPU")
        tnorm = base["events"][0]["secs"]
        # generous limit (a healthy run on a loaded machine must not be cut short); a run that looks stuck is asked for
        # its goroutine stacks after `probe` seconds and ended early only if two dumps prove a permanent block
        limit = max(300.0, 100 * tnorm)
        probe = max(6.0, 6 * tnorm)
        tcases = [(2047, 1), (2048, 1), (2049, 1), (2100, 1)] + ([(4095, 2), (4096, 2), (4097, 2)] if thorough else [])
        tres = {}

        def trun(i, d, k):
            cpus = str(1 + i) if k == 1 else "%d-%d" % (1 + 2 * i, 2 + 2 * i)
            if NCPU <= 2 * i + 2:
                cpus = "0" if k == 1 else "0-1"
            tres[(d, k)] = child(vh, cpus, ddb, [days_query(d)], limit=limit, probe=probe, workdir=sc)
        tj = [threading.Thread(target=trun, args=(i, d, k)) for i, (d, k) in enumerate(tcases)]
        for t in tj:
            t.start()

        # ---------------------------------------------------------------- F1: equality (meanwhile)
        edb = os.path.join(sc, "eq")
        edays = 230 if thorough else 150
        p = subprocess.run([vh, "wq-gen", "-dir", edb, "-seed", str(run.seed), "-days", str(edays)], stdout=subprocess.PIPE,
                           stderr=subprocess.PIPE, text=True)
        if p.returncode != 0:
            raise vlib.MachineryError("wq-gen failed: " + p.stderr[-2000:])
        eq_dbev = p.stdout.strip()
        queries = eq_queries(edays)
        ks = [k for k in (1, 2, 4, 8, 16) if k <= NCPU]
        if len(ks) < 5:
            run.note("only %d CPUs: worker counts %s" % (NCPU, ks))
        configs = []
        for k in ks:
            for lowmem in (False, True):
                for gmp in sorted({1, k}):
                    configs.append((k, lowmem, gmp, None))
        if thorough:
            for k in ks[1:]:
                configs.append((k, False, k, {"GODEBUG": "asyncpreemptoff=1"}))
        eres = {}

        def erun(idx):
            for ci in range(idx, len(configs), 3):
                k, lowmem, gmp, extra = configs[ci]
                eres[ci] = child(vh, "0-%d" % (k - 1) if k > 1 else "0", edb, queries, lowmem=lowmem, gomaxprocs=gmp,
                                 limit=900, env_extra=extra, reps=2 if thorough else 1, workdir=sc)
        ej = [threading.Thread(target=erun, args=(i,)) for i in range(3)]
        for t in ej:
            t.start()
        for t in ej + tj + jobs:
            t.join()
        for k_, v in res.items():
            if isinstance(v, Exception):
                raise vlib.MachineryError("TLC job %s: %r" % (k_, v))

        # ---------------------------------------------------------------- M verdicts (about the model only)
        r = vlib.expect_tlc_ok(res["design"], "WorkQueueMC")
        if r.violation:
            raise vlib.MachineryError("WorkQueue (workers first / as built with W <= Q*N) violates %s - spec error\n%s" % (r.violation, "\n".join(r.cex[:60])))
        for a in ("Produce", "ProducerDone", "StartWorkers", "WaitDone", "CloseMapChan", "Return", "Take", "Scan", "Send", "Exit",
                  "Merge", "AggFinish"):
            vlib.require(r.coverage.get(a, (0, 0))[0] > 0, "vacuous: action %s never taken" % a)
        run.add_tlc(r, "WorkQueueMC (workers first: W in %s; as built: W <= Q*N; N in 1..3)" % wset)
        if "two-ifaces" in res:
            r = vlib.expect_tlc_ok(res["two-ifaces"], "WorkQueueMC two interfaces")
            if r.violation:
                raise vlib.MachineryError("WorkQueue (two interfaces) violates %s - spec error" % r.violation)
            run.add_tlc(r, "WorkQueueMC two interfaces, low-memory, MapCap 1")
        o = res["over"]
        if o.error:
            raise vlib.MachineryError("WorkQueueAsBuilt over: %s" % o.error)
        vlib.require(o.violation == "deadlock", "negative run: the as-built order with W > Q*N must deadlock on the model (got %s)" % o.violation)
        stuck = {}
        for ln in o.cex:
            m = re.match(r"^/\\ (\w+) = (.*)$", ln)
            if m:
                stuck[m.group(1)] = m.group(2)
        model_stuck = {"producer": "blocked-send" if stuck.get("pc", "").startswith('<<"produce"') else stuck.get("pc"),
                       "workers": 0 if set(re.findall(r'"(\w+)"', stuck.get("ws", ""))) == {"none"} else -1,
                       "aggregator": "waiting-receive" if stuck.get("mapchan") == "<<>>" and stuck.get("aggdone") == "FALSE" else "?"}
        run.add_tlc(o, "WorkQueueAsBuilt W>Q*N (expected deadlock)")
        pred = {(x["days"], x["cpus"]): x for x in (o.infos[0] if o.infos else [])}
        vlib.require(pred, "WorkQueuePredict printed no predictions")
        run.cov["model_candidate"] = {"as_built_deadlock_state": model_stuck, "rule": "as built ends iff ceil(D/32) <= 64*NumCPU"}

        # ---------------------------------------------------------------- F2 verdicts
        term = []
        for (d, k) in tcases:
            c = tres[(d, k)]
            ev = c["events"][0] if c["events"] else None
            entry = {"days": d, "cpus": k, "workloads": pred[(d, k)]["workloads"], "ended": not c["timeout"], "secs": round(c["secs"], 2),
                     "as_built_model_ends": pred[(d, k)]["asbuilt_ends"]}
            if c["timeout"]:
                st, kept = abstract_dump(c["stderr"])
                entry["dump_state"] = st
                if deadlock_proven(st):
                    same = {x: st[x] for x in ("producer", "workers", "aggregator")} == model_stuck
                    entry["matches_model_deadlock_state"] = same
                    run.violation({"cls": "workqueue-deadlock", "where": "CreateWorkerJobs-send-before-workers", "binding": "F2"},
                                  {"kind": "wq-termination", "days": d, "cpus": k, "limit_s": round(limit, 1), "normal_s": round(tnorm, 2),
                                   "stopped_after_s": round(c["secs"], 1),
                                   "dump_state": st, "model_deadlock_state": model_stuck, "goroutine_dump": kept[:12000],
                                   "cmd": "taskset -c 0 vh_workqueue wq-query -db <db with %d day directories>" % ndays, "query": days_query(d)})
                else:
                    raise vlib.MachineryError("query over %d day directories exceeded %.0fs without a dump proving a deadlock "
                                              "(inconclusive): %s" % (d, limit, json.dumps(st)))
            else:
                vlib.require(ev is not None, "child for %d days printed no event: %s" % (d, c["stderr"][-400:]))
                vlib.require(ev["numcpu"] == k, "taskset did not give the child %d CPUs" % k)
            term.append(entry)
            run.count(1)
        run.cov["termination"] = {"normal_secs_2000_days": round(tnorm, 2), "limit_secs": round(limit, 1), "probe_secs": round(probe, 1),
                                  "cases": term}
        ended = {(e["days"], e["cpus"]): e["ended"] for e in term}
        run.cov["order_in_code"] = ("as built (producer completes before workers start)"
                                    if all(ended[x] == pred[x]["asbuilt_ends"] for x in ended) and not all(ended.values())
                                    else "workers receive while workloads are produced" if all(ended.values()) else "neither model variant")
        # negative control of the dump classifier
        st0, _ = abstract_dump(idle_dump(vh, sc))
        vlib.require(st0["goroutines"] > 0 and not deadlock_proven(st0), "negative control: an idle child's dump was classified as deadlock")
        run.cov["negative_control_dump"] = "dump of a healthy child (%d goroutines) not classified as deadlock" % st0["goroutines"]

        # ---------------------------------------------------------------- F1 + F2 results judged by TLC
        lines = [eq_dbev]
        distinct = {}
        nchild = 0
        for ci, (k, lowmem, gmp, extra) in enumerate(configs):
            c = eres[ci]
            vlib.require(not c["timeout"], "equality child k=%d timed out (inconclusive): %s" % (k, c["stderr"][-600:]))
            if c["rc"] != 0 and ("panic:" in c["stderr"] or "fatal error:" in c["stderr"]):
                i = max(c["stderr"].find("panic:"), c["stderr"].find("fatal error:"))
                run.violation({"cls": "query-crash", "k": k, "lowmem": lowmem, "binding": "F1"},
                              {"kind": "wq-equality", "config": {"k": k, "lowmem": lowmem, "gomaxprocs": gmp}, "seed": run.seed, "days": edays,
                               "queries": queries, "stderr": c["stderr"][max(0, i - 300):i + 3000]})
            else:
                vlib.require(c["rc"] == 0 and len(c["events"]) == len(queries) * (2 if thorough else 1),
                             "equality child k=%d failed: %s" % (k, c["stderr"][-600:]))
            for e in c["events"]:
                vlib.require(e["numcpu"] == k, "taskset did not give the child %d CPUs (saw %d)" % (k, e["numcpu"]))
                nchild += 1
                distinct.setdefault(_reskey(e), (e, []))[1].append({"k": k, "lowmem": lowmem, "gomaxprocs": gmp, "extra": bool(extra)})
        run.count(nchild)
        order = []
        unjudged = []
        perq = {}
        for key in sorted(distinct, key=lambda k_: (-len(distinct[k_][1]), k_)):
            e, cfgs = distinct[key]
            perq[e["qn"]] = perq.get(e["qn"], 0) + 1
            if perq[e["qn"]] > 6:
                unjudged.append((e, cfgs))      # a query has one result: see below
                continue
            order.append((e, cfgs))
            lines.append(json.dumps({x: e[x] for x in ("ev", "q", "rows", "totals", "hits", "ifaces", "err")}, separators=(",", ":")))
        neq = len(lines)
        # negative control: a copy of the last equality event with one row dropped
        bad = json.loads(lines[-1])
        vlib.require(len(bad["rows"]) > 0, "equality query returned no rows")
        bad["rows"] = bad["rows"][1:]
        lines.append(json.dumps(bad, separators=(",", ":")))
        negline = len(lines)
        lines.append(days_dbev)
        tline = {}
        for (d, k) in [(2000, 1)] + tcases:
            c = base if (d, k) == (2000, 1) else tres[(d, k)]
            if c["events"]:
                e = c["events"][0]
                lines.append(json.dumps({x: e[x] for x in ("ev", "q", "rows", "totals", "hits", "ifaces", "err")}, separators=(",", ":")))
                tline[len(lines)] = (d, k)
        t = vlib.tlc("query", "QueryTrace", "QueryTrace.cfg", workers=1, files={"trace.ndjson": "\n".join(lines) + "\n"}, scratch=sc,
                     timeout=2400, heap="12g")
        if t.error:
            raise vlib.MachineryError("QueryTrace: %s\n%s" % (t.error, t.stdout[-2000:]))
        vlib.require(t.violation is None, "QueryTrace did not consume the trace: %s" % t.violation)
        run.add_tlc(t, "QueryTrace (spec/query) over the children's results")
        mlines = {m.get("line") for m in t.mismatches}
        vlib.require(negline in mlines, "negative control: a result with a dropped row was accepted by QueryTrace")
        run.cov["negative_control_equality"] = "copy of a child's result with one row dropped rejected"
        run.cov["traces_validated_against_impl"] += nchild + len(tline)
        run.cov["equality"] = {"configs": len(configs), "worker_counts": ks, "queries": len(queries), "results": nchild,
                               "distinct_results_judged": len(order), "day_directories": edays,
                               "records": json.loads(eq_dbev)["records"], "rows_per_query": [len(e["rows"]) for e, _ in order][:8]}
        for ci, (k, lowmem, gmp, extra) in enumerate(configs):
            run.distinct("k=%d lowmem=%s gomaxprocs=%d %s" % (k, lowmem, gmp, "nopreempt" if extra else ""))
        for e in term:
            run.distinct("days=%d cpus=%d" % (e["days"], e["cpus"]))
        run.sample({"kind": "equality child", "config": order[0][1][0], "qtype": order[0][0]["qtype"], "hits": order[0][0]["hits"]})
        run.sample({"kind": "termination case", **term[-1]})
        # results beyond the sixth distinct one of a query were not sent to TLC: Result(db,q) is a function, so if TLC
        # accepted one result of that query every other one is not the specification's
        accepted_q = {order[ln - 2][0]["qn"] for ln in range(2, neq + 1) if ln not in mlines}
        for e, cfgs in unjudged:
            if e["qn"] in accepted_q:
                for cfg in cfgs:
                    run.violation({"cls": "parallel-result-mismatch", "k": cfg["k"], "lowmem": cfg["lowmem"], "binding": "F1"},
                                  {"kind": "wq-equality", "config": cfg, "seed": run.seed, "days": edays, "query": e["q"], "qtype": e["qtype"],
                                   "condition": e["text"], "note": "differs from the result TLC accepted for this query",
                                   "got_hits": e["hits"], "got_totals": e["totals"]})
            else:
                run.note("query %d: a result of %d configuration(s) was not judged (more than six distinct results)" % (e["qn"], len(cfgs)))
        for mm in t.mismatches:
            ln = mm.get("line")
            if ln == negline:
                continue
            if 2 <= ln <= neq:
                e, cfgs = order[ln - 2]
                for cfg in cfgs:
                    run.violation({"cls": "parallel-result-mismatch", "k": cfg["k"], "lowmem": cfg["lowmem"], "binding": "F1"},
                                  {"kind": "wq-equality", "config": cfg, "seed": run.seed, "days": edays, "query": e["q"], "qtype": e["qtype"],
                                   "condition": e["text"], "expected": mm.get("exp"), "got": {x: e[x] for x in ("rows", "totals", "hits", "ifaces", "err")},
                                   "all_configs_with_this_result": cfgs})
            elif ln in tline:
                d, k = tline[ln]
                e = json.loads(lines[ln - 1])
                run.violation({"cls": "many-days-result-mismatch", "binding": "F2"},
                              {"kind": "wq-termination-result", "days": d, "cpus": k, "expected": mm.get("exp"),
                               "got": {x: e[x] for x in ("rows", "totals", "hits", "ifaces", "err")}, "query": e["q"]})
            else:
                raise vlib.MachineryError("unexpected mismatch line %s" % ln)

    run.cov["rule"] = ("evaluations = queries run in child processes; distinct = configurations (worker count x low-memory x GOMAXPROCS) "
                       "plus termination cases (day directories x CPUs)")
    run.assumptions += ["runtime.NumCPU follows the CPU affinity set by taskset (checked in every child)",
                        "a hang is reported only with a goroutine dump showing the blocked send in CreateWorkerJobs and no worker goroutine",
                        "equality queries avoid conditions that trigger the IP family pruning of C08"]
    return run.finish()


def replay(path):
    d = json.load(open(path))["replay"]
    vh = vlib.build_vh("workqueue")
    with vlib.Scratch("verif-c11-replay-") as sc:
        if d["kind"] == "wq-termination":
            db = os.path.join(sc, "days")
            subprocess.run([vh, "wq-days", "-dir", db, "-days", str(d["days"] + 10)], stdout=subprocess.DEVNULL, check=True)
            c = child(vh, "0" if d["cpus"] == 1 else "0-%d" % (d["cpus"] - 1), db, [d["query"]], limit=max(30.0, d.get("limit_s", 30)),
                      probe=8.0, workdir=sc)
            if c["timeout"]:
                st, kept = abstract_dump(c["stderr"])
                print(json.dumps(st))
                print(kept[:3000])
                return 1 if deadlock_proven(st) else 2
            print("query returned in %.1fs" % c["secs"])
            return 0
        print("re-run: ./check C11 --seed %s   (config %s)" % (d.get("seed"), d.get("config")))
        return 2
