"""X01 (EXTENSION, not one of the 31 listed properties) - the goroutine / channel protocol of one
query with the memory-limit cancellation path (spec/querycancel/QueryCancel.tla).

M  QueryCancelMC: the repaired design (main is the only closer of mapChan and the only receiver of
   the aggregate) satisfies NoPanic, NoNilAggregate, ResultIsReal and the liveness property Returns
   for two workers, workloads of 1/2/1 directories and a channel capacity of 2; the design as built
   (the watcher goroutine of run() closes mapChan and takes the aggregate itself) must violate
   NoPanic (negative run).
F  QueryCancelGen: for each scenario (one workload of 1, 2 or 3 directories; with / without a memory
   breach while the first worker is parked inside its first directory) TLC enumerates the outcomes
   each design allows; harness command `qc-run` executes the scenario on the real query engine in a
   child process (verif gate parks the worker; Statement.MaxMemPct = 0 makes heap.Watch report a
   breach at its first tick) and the observed outcome must be one the REPAIRED design allows.  An
   outcome only the design AS BUILT allows is the defect found with this check at the pinned commit
   (DESIGN 14; repaired in /repo by c780f52): it is reported as a violation again if it returns.

This file is not listed in MANIFEST.json (the manifest is about the given properties); run it with
`./check X01`.  exit 0: every scenario conforms to the repaired design; exit 1: an outcome the
repaired design does not allow (EXTENSION-VIOLATION, with the name of the design that allows it).
"""
import json
import os
import subprocess
import time

import vlib

FAMILY = "querycancel"
SCENARIOS = [(1, True), (2, True), (3, True), (1, False), (2, False)]
FINDING = ("a breach of the query memory limit (max_mem_pct) does not make the query fail with "
           "'maximum memory breach': the watcher goroutine of QueryRunner.RunStatement closes mapChan, a worker "
           "that finishes its workload then sends on the closed channel, or RunStatement closes it a second time - "
           "the process panics")


def _gen_cfg(design, ndirs, breach):
    return {"cfg_text": "SPECIFICATION GenSpec\nCONSTANTS\n  Workers <- MCWorkers\n  Workloads <- GenWorkloads\n  Cap = 2\n"
                        "  Design = \"%s\"\n  NDirs = %d\n  WithBreach = %s\nCHECK_DEADLOCK FALSE\n" %
                        (design, ndirs, "TRUE" if breach else "FALSE")}


def _classify(rc, out, err):
    if "panic: send on closed channel" in err:
        return "send-closed"
    if "panic: close of closed channel" in err:
        return "close-closed"
    if "panic:" in err and "nil" in err:
        return "nil-aggregate"
    for line in out.splitlines():
        if line.startswith("OUTCOME ok"):
            return "ok"
        if line.startswith("OUTCOME error") and "memory breach" in line:
            return "memerr"
        if line.startswith("OUTCOME"):
            return "other:" + line[8:120]
    return "other:rc=%s %s" % (rc, err[-300:])


def main():
    t0 = time.time()
    vh = vlib.build_vh("store")
    report = {"check": "X01", "spec": "spec/querycancel/QueryCancel.tla", "scenarios": []}
    with vlib.Scratch("verif-x01-") as sc:
        rep = vlib.tlc(FAMILY, "QueryCancelMC", "QueryCancelRepaired.cfg", scratch=os.path.join(sc, "m1"), workers=4, timeout=600)
        vlib.expect_tlc_ok(rep, "QueryCancelMC repaired")
        if rep.violation:
            raise vlib.MachineryError("the repaired design violates %s" % rep.violation)
        asb = vlib.tlc(FAMILY, "QueryCancelMC", "QueryCancelAsBuilt.cfg", scratch=os.path.join(sc, "m2"), workers=1, timeout=600)
        vlib.require(asb.violation == "NoPanic", "negative model run: the design as built does not violate NoPanic (%s %s)" % (asb.violation, asb.error))
        report["model"] = {"repaired": rep.summary(), "asbuilt_must_fail": asb.summary()}
        findings, bad = [], []
        for ndirs, breach in SCENARIOS:
            allowed = {}
            for design in ("repaired", "asbuilt"):
                g = vlib.tlc(FAMILY, "QueryCancelGen", _gen_cfg(design, ndirs, breach), scratch=os.path.join(sc, "g-%s-%d-%s" % (design, ndirs, breach)),
                             workers=1, timeout=300)
                vlib.expect_tlc_ok(g, "QueryCancelGen %s" % design)
                allowed[design] = sorted({i["outcome"] for i in g.infos if isinstance(i, dict) and "outcome" in i})
                vlib.require(allowed[design], "scenario without outcome")
            db = os.path.join(sc, "db-%d-%s" % (ndirs, breach))
            p = subprocess.run([vh, "qc-run", "-db", db, "-days", str(ndirs)] + (["-breach"] if breach else []),
                               stdout=subprocess.PIPE, stderr=subprocess.PIPE, text=True, timeout=120)
            vlib.require("VEVENT parked" in p.stdout and "VEVENT released" in p.stdout, "qc-run: the gate never parked a worker: %s" % p.stderr[-500:])
            got = _classify(p.returncode, p.stdout, p.stderr)
            row = {"ndirs": ndirs, "breach": breach, "allowed_repaired": allowed["repaired"], "allowed_asbuilt": allowed["asbuilt"], "observed": got}
            report["scenarios"].append(row)
            if got in allowed["repaired"]:
                row["verdict"] = "conforms to the repaired design"
            elif got in allowed["asbuilt"]:
                row["verdict"] = "conforms to the design as built only"
                findings.append(row)
            else:
                row["verdict"] = "allowed by neither design"
                bad.append(row)
    report["wall_s"] = round(time.time() - t0, 1)
    d = os.path.join(vlib.EVID, "ext")
    os.makedirs(d, exist_ok=True)
    with open(os.path.join(d, "X01.json"), "w") as fh:
        json.dump(report, fh, indent=1)
    for r in findings:
        print("EXTENSION-VIOLATION: X01 %s [workload of %d directories: %s; the design as built allows it, the repaired design does not]"
              % (FINDING, r["ndirs"], r["observed"]))
    for r in bad:
        print("EXTENSION-VIOLATION: X01 scenario ndirs=%d breach=%s: observed %s, repaired design allows %s, design as built %s" %
              (r["ndirs"], r["breach"], r["observed"], r["allowed_repaired"], r["allowed_asbuilt"]))
    ok = not bad and not findings
    print("X01: %s  scenarios=%d as-built-only=%d unexplained=%d [%.1fs]" % ("OK" if ok else "VIOLATION", len(SCENARIOS), len(findings), len(bad), time.time() - t0))
    return 0 if ok else 1
