"""C21 - packets seen while the capture is paused are counted once and unaltered.

M  PauseLockMC: the three-point pause lock (capture loop, write-out / status / live-query lock holders,
   source with wake-up tokens, channels with their real capacities, buffer pool of one) explored in
   every interleaving for 2 lock holders x 3 packets (IPv4/IPv6, both directions, unparseable) x a
   local buffer of 1-2 elements: Mutex, Accounted (every packet taken is in exactly one place),
   Unaltered, Ordered, LossReported, StatsConserved, NoStuck, NoLoss.  Negative run with the as-built
   family flag (FamilyFlagBug) must violate Unaltered.
F  PauseLockGen: every maximal schedule of environment events (Deliver burst / Begin lock holder /
   Release the holder parked in source.Stats()) is executed on a real capture.Manager fed by a scripted
   source; after every event the real system is awaited at rest and the state of the calls, the
   capture's flow log, the results returned by write-out / status / live query and the overflow
   reports are compared with the model's quiescent state.
B  PauseLockTrace: seeded racing goroutines (packets against status / write-out / live-query calls,
   no gate) log what happens at the source and at the calls; TLC accepts the log iff it is a behaviour
   of PauseLock (internal steps inferred).
"""
import collections
import json
import os
import subprocess
import threading

import vlib

MANIFEST = {
    "level": "model_checking",
    "technique": "TLA+ spec PauseLock: TLC exhaustive over all interleavings + TLC-generated schedules executed on a real "
                 "capture.Manager with a scripted source + TLC trace validation of seeded racing runs",
    "text": "PauseLock.tla models the capture loop, the three kinds of lock holders, the source's wake-up token and the lock "
            "channels with their real capacities; TLC checks exhaustively (2 holders x 3 mixed IPv4/IPv6 packets x buffer of 1-2 "
            "elements) that every packet taken is added exactly once as itself or reported lost, that the loop never touches the "
            "flow log during a critical section and that no state is stuck.  Every maximal environment schedule of the model is "
            "executed on the real manager (real buffer of 4096 bytes, bursts up to the capacity) with flow log, call results and "
            "overflow reports compared at every rest point; racing runs are validated backwards by TLC.",
    "note": "Trusts the scripted source (wake-up token semantics of the ring source), the harness' rest detection, TLC, and the "
            "link-by-name access to Manager.performWriteout; one interface, buffer pool of one (goProbe's default), lock time-outs "
            "(30 s) not modelled.",
    "ref": "6.6",
}

GEN_CFG = """SPECIFICATION GenSpec
CONSTANTS
  NL = %(nl)d
  Kinds <- GenKinds
  Scripts <- %(scripts)s
  BufCap = 4096
  Elem4 = 21
  Elem6 = 45
  Rounds = %(rounds)d
  FamilyFlagBug = FALSE
VIEW GenView
CHECK_DEADLOCK FALSE
"""

MC_CFG = """SPECIFICATION Spec
CONSTANTS
  NL = %(nl)d
  Kinds <- MCKinds
  Scripts <- %(scripts)s
  BufCap = %(cap)d
  Elem4 = 1
  Elem6 = 1
  Rounds = %(rounds)d
  FamilyFlagBug = %(bug)s
INVARIANTS Mutex OneHolder Accounted LossReported Unaltered Ordered StatsConserved NoStuck NoLoss BusyIsEnabled
VIEW View
CHECK_DEADLOCK FALSE
"""

ACTIONS = ("Deliver", "Begin", "Release", "M_CapTop", "M_CapTok", "M_CapPkt", "M_Proc", "M_Confirm", "M_Take", "M_BufTop",
           "M_BufTok", "M_BufPkt", "M_Ovf", "M_Drain", "M_Rel", "L_MgrLock", "L_GetSem", "L_SendReq", "L_Unblock1", "L_Crit",
           "L_Stat", "L_SendDone", "L_Unblock2", "L_Return")


def _par(jobs):
    """run callables concurrently (TLC runs are independent JVMs), return their results in order"""
    res = [None] * len(jobs)
    errs = []

    def go(i, f):
        try:
            res[i] = f()
        except Exception as e:  # noqa
            errs.append(e)
    ts = [threading.Thread(target=go, args=(i, f)) for i, f in enumerate(jobs)]
    for t in ts:
        t.start()
    for t in ts:
        t.join()
    if errs:
        raise errs[0]
    return res


def schedule_key(b):
    return json.dumps([b["cfg"]["script"]] + [s["ev"] for s in b["steps"]], sort_keys=True)


def shape(b):
    """abstract shape of a schedule: event names with holder kinds and the capture mode at each delivery"""
    out = []
    for s in b["steps"]:
        e = s["ev"]
        if e["name"] == "Deliver":
            out.append("D%d%s%s" % (e["p"]["ver"], "b" if s["pre"]["mode"] == "BufNext" else "c", "+" if e["p"]["n"] > 1 else ""))
        elif e["name"] == "Begin":
            out.append("B%d%s" % (e["l"], e["k"]))
        elif e["name"] == "Release":
            out.append("R%d" % e["l"])
    return " ".join(out)


class CodeCrashed(Exception):
    """a goroutine of the code under test panicked: the harness process is gone"""


def _crash_of_code(err):
    """the part of stderr that shows a panic whose first frames lie in the code under test (None otherwise)"""
    i = err.find("panic:")
    if i < 0:
        i = err.find("fatal error:")
    if i < 0:
        return None
    frames = [ln for ln in err[i:].splitlines() if ln.startswith("github.com/") or ln.startswith("verifharness/")]
    if frames and frames[0].startswith("github.com/els0r/goProbe/"):
        return err[i:i + 2500]
    return None


def replay_behaviours(run, vh, behs, seed, label):
    rc, outs, err = vlib.run_vh(vh, ["pauselock-replay", "-seed", str(seed), "-workers", "4"],
                                stdin_lines=[json.dumps(b, separators=(",", ":")) for b in behs], timeout=3000, check=False)
    if rc != 0:
        crash = _crash_of_code(err)
        if crash:
            raise CodeCrashed(crash)
        raise vlib.MachineryError("harness pauselock-replay -seed %s failed rc=%s\nstderr: %s" % (seed, rc, err[-3000:]))
    summ = [o for o in outs if o.get("summary")]
    vlib.require(summ and summ[0]["behaviours"] == len(behs), "%s: replay did not process all behaviours" % label)
    return summ[0], [o for o in outs if o.get("ok") is False]


def main():
    run = vlib.Run("C21", "model_checking")
    thorough = run.tier == "thorough"
    vh = vlib.build_vh("pauselock")
    with vlib.Scratch("verif-c21-") as sc:
        # ---- M (+ negative model run) and the generators, concurrently
        mcs = [("PauseLockMC cap=2", dict(nl=2, cap=2, rounds=1, bug="FALSE", scripts="MCScripts" if thorough else "MCScriptsQuick"))]
        if thorough:
            mcs += [("PauseLockMC cap=1", dict(nl=2, cap=1, rounds=1, bug="FALSE", scripts="MCScripts")),
                    ("PauseLockMC 1 holder x 3 rounds", dict(nl=1, cap=2, rounds=3, bug="FALSE", scripts="MCScripts"))]
        gens = [("PauseLockGen 2 holders", dict(nl=2, rounds=1, scripts="GenScriptsAll" if thorough else "GenScriptsQuick"))]
        # several lock cycles of the same holder: what one pause leaves behind in the local buffer meets the next
        gens += [("PauseLockGen 1 holder x 3 rounds", dict(nl=1, rounds=3, scripts="GenScriptsRounds"))]
        jobs = []
        for label, c in mcs:
            jobs.append(lambda c=c: vlib.tlc("pauselock", "PauseLockMC", {"cfg_text": MC_CFG % c}, workers=4, scratch=sc, timeout=1500))
        jobs.append(lambda: vlib.tlc("pauselock", "PauseLockMC", {"cfg_text": MC_CFG % dict(nl=2, cap=2, rounds=1, bug="TRUE", scripts="MCScriptsQuick")},
                                     workers=2, scratch=sc, timeout=900))
        for label, c in gens:
            jobs.append(lambda c=c: vlib.tlc("pauselock", "PauseLockGen", {"cfg_text": GEN_CFG % c}, workers=4, scratch=sc,
                                             timeout=2400, heap="12g"))
        # vacuity guard: action coverage is measured on a sub-configuration (one script of the set that
        # every M run uses, same constants), so every action is taken in the full runs as well
        jobs.append(lambda: vlib.tlc("pauselock", "PauseLockMC", {"cfg_text": MC_CFG % dict(nl=2, cap=2, rounds=1, bug="FALSE", scripts="MCScriptsCov")},
                                     coverage=True, workers=2, scratch=sc, timeout=900))
        res = _par(jobs)
        cov = res.pop()
        vlib.expect_tlc_ok(cov, "PauseLockMC coverage run")
        vlib.require(not cov.violation, "coverage run: %s" % cov.violation)
        for a in ACTIONS:
            vlib.require(cov.coverage.get(a, (0, 0))[0] > 0, "vacuous: action %s never taken" % a)
        run.add_tlc(cov, "PauseLockMC coverage (1 script)")
        for (label, c), r in zip(mcs, res):
            vlib.expect_tlc_ok(r, label)
            if r.violation:
                raise vlib.MachineryError("%s: the design violates %s (spec error, not a code verdict)\n%s" %
                                          (label, r.violation, "\n".join(r.cex[:60])))
            run.add_tlc(r, label)
        neg = res[len(mcs)]
        vlib.require(neg.violation == "Unaltered", "negative model run (IPv6 buffered with the IPv4 flag) did not violate Unaltered: %s %s"
                     % (neg.violation, neg.error))
        run.cov["negative_control_model"] = "FamilyFlagBug=TRUE violates Unaltered after %d states" % neg.distinct
        behs = []
        for (label, c), r in zip(gens, res[len(mcs) + 1:]):
            vlib.expect_tlc_ok(r, label)
            vlib.require(not r.violation, "%s: %s" % (label, r.violation))
            vlib.require(len(r.traces) > 100, "%s produced too few behaviours (%d)" % (label, len(r.traces)))
            run.add_tlc(r, label)
            behs += r.traces
        behs.sort(key=schedule_key)   # TLC prints in worker order
        # the quiescent observation must be a function of the schedule (confluence of internal steps)
        seen = {}
        for b in behs:
            k = schedule_key(b)
            v = json.dumps([s["pre"] for s in b["steps"]], sort_keys=True)
            vlib.require(seen.setdefault(k, v) == v, "model is not confluent: one schedule, two quiescent observations")
        vlib.require(len(seen) == len(behs), "generator printed a schedule twice")
        n_ovf = sum(1 for b in behs if b["steps"][-1]["pre"]["ovf"] > 0)
        n_buf6 = sum(1 for b in behs if any(s["ev"]["name"] == "Deliver" and s["pre"]["mode"] == "BufNext" and s["ev"]["p"]["ver"] == 6
                                            for s in b["steps"]))
        vlib.require(n_ovf > 0 and n_buf6 > 0, "generator produced no overflow / no buffered IPv6 packet")
        run.cov["schedules"] = len(behs)
        run.cov["schedules_with_overflow"] = n_ovf
        run.cov["schedules_with_buffered_ipv6"] = n_buf6

        # ---- F
        try:
            summ, bad = replay_behaviours(run, vh, behs, run.seed, "F")
        except CodeCrashed as e:
            # the process died with the capture's own goroutine panicking: nothing else can be judged in this run
            run.violation({"cls": "capture-goroutine-panics", "binding": "F"},
                          {"kind": "pauselock-replay-crash", "seed": run.seed, "schedules": len(behs),
                           "msg": "a goroutine of the capture panicked while the generated schedules were executed (the process died): " + str(e)})
            return run.finish()
        # a time-out of the harness' waits on a busy machine must not become a verdict: schedules that
        # failed with "stuck" are executed once more, alone
        again = [o for o in bad if o["desc"].get("cls") == "stuck"]
        if again:
            _, bad_again = replay_behaviours(run, vh, [o["behaviour"] for o in again], run.seed, "F (stuck schedules again)")
            still = set(schedule_key(o["behaviour"]) for o in bad_again)
            bad = [o for o in bad if o["desc"].get("cls") != "stuck" or schedule_key(o["behaviour"]) in still]
            run.note("%d schedule(s) timed out in the first pass, %d again when run alone" % (len(again), len(bad_again)))
        run.count(summ["steps"])
        run.cov["traces_validated_against_impl"] += len(behs)
        for b in behs:
            run.distinct(shape(b))
        mid = behs[len(behs) // 2]
        run.sample({"kind": "forward replay schedule", "shape": shape(mid), "final_flow_log": mid["steps"][-1]["pre"]["flog"][:3]})
        groups = collections.OrderedDict()
        for o in bad:
            groups.setdefault(json.dumps(o["desc"], sort_keys=True), []).append(o)
        for k, os_ in groups.items():
            o = min(os_, key=lambda x: len(x["behaviour"]["steps"]))
            run.violation(o["desc"],
                          {"kind": "pauselock-replay", "seed": run.seed, "behaviour": o["behaviour"], "step": o["step"],
                           "msg": o["msg"][:3000], "failing_schedules_with_this_descriptor": len(os_),
                           "shape": shape(o["behaviour"])})
        run.cov["failing_schedules"] = len(bad)

        # negative control of the binding: a schedule that the real code passes must fail once one
        # expected counter of the final flow log is changed
        badkeys = set(schedule_key(o["behaviour"]) for o in bad)
        ctl = None
        for b in behs:
            fin = b["steps"][-1]["pre"]
            if schedule_key(b) not in badkeys and fin["safe"] and fin["flog"] and any(
                    s["ev"]["name"] == "Deliver" and s["pre"]["mode"] == "BufNext" for s in b["steps"]):
                ctl = json.loads(json.dumps(b))
                break
        vlib.require(ctl is not None, "no passing schedule with buffered packets available for the negative control")
        ctl["steps"][-1]["pre"]["flog"][0]["c"]["pr"] += 1
        s2, bad2 = replay_behaviours(run, vh, [ctl], run.seed, "negative control")
        vlib.require(len(bad2) == 1 and bad2[0]["desc"].get("cls") == "flowlog",
                     "negative control: a corrupted expected flow log was accepted")
        run.cov["negative_control"] = "expected packet counter of a buffered flow +1: rejected (%s)" % shape(ctl)

        # ---- B
        drive_and_validate(run, vh, sc, thorough)

    run.cov["rule"] = ("F: every maximal schedule of the model for the script set (quick 5 scripts, thorough 11 + 2 multi-round), "
                       "distinct = distinct schedule shapes (event order, holder kinds, IP version and capture mode of each delivery); "
                       "B: seeded racing runs")
    run.assumptions += ["one interface, one shared local buffer (pool of 1, goProbe's default), buffer limit = initial size 4096 bytes",
                        "the scripted source keeps an Unblock() token until the next NextIPPacketZeroCopy call, like the ring source's event fd",
                        "environment events happen at rest points of the system (F); arbitrary timing is explored by M on the model and by B on the code",
                        "flows whose counters are zero are not compared (internal orientation memory)",
                        "packets that are neither IPv4 nor IPv6 are not delivered (the code documents that it cannot count them during a pause)"]
    return run.finish()


def drive_and_validate(run, vh, sc, thorough):
    """B: racing goroutines on the real manager, log validated by PauseLockTrace."""
    if not os.path.exists(os.path.join(vlib.SPEC, "pauselock", "PauseLockTrace.tla")):
        run.note("binding B not built")
        return
    traces, packets, calls = (30, 60, 12) if thorough else (8, 30, 6)
    tfile = os.path.join(sc, "trace.ndjson")
    with open(tfile, "w") as fh:
        p = subprocess.run([vh, "pauselock-drive", "-seed", str(run.seed), "-traces", str(traces), "-packets", str(packets),
                            "-calls", str(calls)], stdout=fh, stderr=subprocess.PIPE, text=True, timeout=1500)
    if p.returncode != 0:
        crash = _crash_of_code(p.stderr)
        if crash:
            run.violation({"cls": "capture-goroutine-panics", "binding": "B"},
                          {"kind": "pauselock-drive", "seed": run.seed, "msg": "a goroutine of the capture panicked while the random driver ran (the process died): " + crash,
                           "cmd": "vh pauselock-drive -seed %d -traces %d -packets %d -calls %d" % (run.seed, traces, packets, calls)})
            return
        raise vlib.MachineryError("pauselock-drive failed (rc=%s): HEAD: %s ... TAIL: %s" % (p.returncode, p.stderr[:2500], p.stderr[-800:]))
    lines = open(tfile).read().splitlines()
    evs = [json.loads(x) for x in lines]
    stuck = [e for e in evs if e.get("ev") == "Stuck"]
    for e in stuck[:3]:
        run.violation({"binding": "B", "cls": "stuck", "what": e.get("what")},
                      {"kind": "pauselock-drive", "seed": run.seed, "event": e,
                       "cmd": "vh pauselock-drive -seed %d -traces %d -packets %d -calls %d" % (run.seed, traces, packets, calls)})
    if stuck:
        return
    t = vlib.tlc("pauselock", "PauseLockTrace", "PauseLockTrace.cfg", workers=1, files={"trace.ndjson": tfile}, scratch=sc,
                 timeout=2400, heap="12g")
    if t.error:
        raise vlib.MachineryError("PauseLockTrace: %s\n%s" % (t.error, t.stdout[-2000:]))
    run.add_tlc(t, "PauseLockTrace")
    run.count(len(lines))
    run.cov["trace_events"] = len(lines)
    nbuf = sum(1 for e in evs if e.get("ev") == "Take" and e.get("paused"))
    run.cov["packets_taken_during_a_call_in_traces"] = nbuf
    vlib.require(nbuf > 0, "racing driver never delivered a packet while a lock holder call was in progress")
    cmd = "vh pauselock-drive -seed %d -traces %d -packets %d -calls %d" % (run.seed, traces, packets, calls)
    if t.violation is None:
        run.cov["traces_validated_against_impl"] += traces
        run.sample({"kind": "implementation trace event", "event": [e for e in evs if e.get("ev") == "End" and e.get("rows")][:1]})
        # negative control: one packet counter of a logged result changed
        idx = [i for i, e in enumerate(evs) if e.get("ev") == "End" and e.get("rows")]
        vlib.require(idx, "racing driver logged no non-empty call result")
        i = idx[len(idx) // 2]
        e = json.loads(lines[i])
        e["rows"][0]["c"]["pr"] += 1
        bad = list(lines)
        bad[i] = json.dumps(e)
        n = vlib.tlc("pauselock", "PauseLockTrace", "PauseLockTrace.cfg", workers=1, files={"trace.ndjson": "\n".join(bad) + "\n"},
                     scratch=sc, timeout=2400, heap="12g")
        vlib.require(n.violation == "postcondition" and not n.error,
                     "negative control: corrupted trace was accepted (%s %s)" % (n.violation, n.error))
        run.cov["negative_control_trace"] = "packet counter of a logged %s result +1 at event %d: rejected" % (e.get("k"), i + 1)
    else:
        vlib.require(t.violation == "postcondition", "PauseLockTrace: unexpected %s" % t.violation)
        # TLC explored every way to explain the log; the best explanation ends before event `last`
        last = max([m.get("line", 0) for m in t.infos if isinstance(m, dict)] or [0])
        ev = evs[last] if last < len(evs) else None
        tr = (ev or {}).get("tr")
        desc = {"binding": "B", "cls": "trace-rejected", "ev": (ev or {}).get("ev"), "kind": (ev or {}).get("k"),
                "buffered_v6": any(e.get("ev") == "Take" and e.get("paused") and e.get("ver") == 6 for e in evs[:last + 1]
                                   if e.get("tr") == tr)}
        run.violation(desc, {"kind": "pauselock-trace", "seed": run.seed, "first_unexplained_event": ev, "line": last + 1, "cmd": cmd,
                             "note": "the interleaving of a racing run is not reproducible; re-running the command gives another log"})


def replay(path):
    d = json.load(open(path))["replay"]
    vh = vlib.build_vh("pauselock")
    if d["kind"] == "pauselock-replay":
        rc, outs, _ = vlib.run_vh(vh, ["pauselock-replay", "-seed", str(d["seed"]), "-workers", "1"],
                                  stdin_lines=[json.dumps(d["behaviour"])])
        bad = [o for o in outs if o.get("ok") is False]
        for o in bad:
            o.pop("behaviour", None)
        print(json.dumps(bad or outs, indent=1)[:4000])
        return 1 if bad else 0
    print("re-run: " + d.get("cmd", "./check C21"))
    return 2
