"""C25 - an interrupted merge never duplicates or hides data.

M  MergeCommit.tla: staging, backup rename, move-in, backup removal, stage removal for a sequence of days with
   Crash anywhere; invariants EitherOr (every day shows its pre-merge XOR its merged data) and NoBogusInterface;
   TLC explores all crash points (the as-built design violates both: named known-finding predicates).
B  fault_enumeration on the real code: goDB.MergeDatabases runs in a child under strace and is killed at EVERY
   file-system call below the destination root (rebuild plan and overwrite/copy plan; one existing day that is
   replaced, one new day); afterwards the real query engine (per day, and over `any` interface), the interface
   listing and a later merge observe the destination; system calls -> MergeCommit actions and the observations
   are validated by TLC (MergeCommitTrace).
"""
import json
import os
import re
import shutil
import subprocess
import sys

import vlib
from checks import store_exp as sx

sys.path.insert(0, os.path.join(vlib.VERIF, "lib"))
import strace2nd  # noqa: E402

MANIFEST = {
    "level": "fault_enumeration",
    "technique": "TLA+ spec MergeCommit (TLC exhaustive over crash points) + SIGKILL at every file-system call of the real merge "
                 "(strace), system-call traces and query/listing/re-merge observations validated by TLC",
    "text": "Every file-system call the real merge performs below the destination root is a crash point that is exercised; after each "
            "the destination is observed through the real query engine, the interface listing, an any-interface query and a second "
            "merge, and TLC judges the observations against the model state reached by the traced calls.",
    "note": "One interface, one replaced day and one added day, rebuild and overwrite-copy plans; process kill (no torn writes); "
            "strace/ptrace required.",
    "ref": "6.7 C25",
}

DAY1, DAY2 = "1700006400", "1700092800"
CONFIGS = {
    "rebuild": {"overwrite": False, "pre": {"1": [1, 2], "2": []}, "post": {"1": [1, 2, 3, 4], "2": [5, 6]}},
    "overwrite": {"overwrite": True, "pre": {"1": [1, 2], "2": []}, "post": {"1": [3, 4], "2": [5, 6]}},
}


def day_of(path):
    if DAY1 in path:
        return 1
    if DAY2 in path:
        return 2
    return 0


def merge_events(log, dst):
    """strace log of merge-run -> MergeCommit events + injection points (FS calls below dst)"""
    calls, killed = strace2nd.parse(log)
    # the merge runs on the (locked) thread that writes the markers
    mainpid = next((c[0] for c in calls if c[1] == "write" and "VEVENT " in c[2]), calls[0][0] if calls else None)
    fds = {}
    ev = []
    points = []
    counts = {}
    built = set()
    inside = False
    stage_root = None
    for (pid, name, args, ret, tail) in calls:
        if pid == mainpid:
            counts[name] = counts.get(name, 0) + 1
        ok = ret is not None and ret >= 0
        m = None
        path = None
        if name == "write":
            m = re.match(r'^(\d+), "((?:[^"\\]|\\.)*)"', args)
            if m and int(m.group(1)) == 2 and m.group(2).startswith("VEVENT "):
                e = json.loads(strace2nd._cstr(m.group(2))[7:].decode())
                inside = e["ev"] == "M_Begin"
                ev.append(e)
                continue
            if m and int(m.group(1)) in fds:
                path = fds[int(m.group(1))]
        elif name == "openat":
            m = re.match(r'^(AT_FDCWD|\d+), "([^"]*)", ([A-Z_|0-9]+)', args)
            if m:
                base = "" if m.group(1) == "AT_FDCWD" else fds.get(int(m.group(1)), "?") + "/"
                path = base + m.group(2)
                if ok:
                    fds[ret] = path
                if "O_CREAT" not in m.group(3) and "O_WRONLY" not in m.group(3):
                    if not path.startswith(dst):
                        continue
                    # read-only opens change nothing, but they are crash points
        elif name == "close":
            try:
                fds.pop(int(args), None)
            except ValueError:
                pass
            continue
        elif name in ("mkdirat", "unlinkat"):
            m = re.match(r'^(AT_FDCWD|\d+), "([^"]*)"(?:, (\w+))?', args)
            if m:
                base = "" if m.group(1) == "AT_FDCWD" else fds.get(int(m.group(1)), "?") + "/"
                path = base + m.group(2)
        elif name in ("renameat", "renameat2"):
            m = re.match(r'^AT_FDCWD, "([^"]*)", AT_FDCWD, "([^"]*)"', args)
            if m:
                path = m.group(1)
        if not inside or path is None or not path.startswith(dst) or pid != mainpid:
            continue
        points.append({"raw": name, "when": counts[name], "path": path[len(dst):][-60:]})
        if not ok:
            continue
        in_stage = "/.gpdb-merge-stage-" in path
        in_backup = ".gpdb-merge-backup-" in path
        d = day_of(path)
        if name == "mkdirat" and re.search(r'/\.gpdb-merge-stage-\d+$', path):
            stage_root = path
            ev.append({"ev": "MkStage"})
        elif name in ("renameat", "renameat2"):
            to = m.group(2)
            if ".gpdb-merge-backup-" in to:
                if d not in built:
                    ev.append({"ev": "BuildDone", "d": d}); built.add(d)
                ev.append({"ev": "RenameToBackup", "d": d})
            elif in_stage and "/.gpdb-merge-stage-" not in to:
                if d not in built:
                    ev.append({"ev": "BuildDone", "d": d}); built.add(d)
                ev.append({"ev": "RenameStagedIn", "d": d})
            elif in_stage and d:
                ev.append({"ev": "BuildStep", "d": d})
        elif name == "unlinkat":
            if in_backup:
                if re.search(r'\.gpdb-merge-backup-\d+$', path) and "AT_REMOVEDIR" in args:
                    ev.append({"ev": "RemoveBackupDone", "d": d})
                else:
                    ev.append({"ev": "RemoveBackupStep", "d": d})
            elif stage_root and path == stage_root and "AT_REMOVEDIR" in args:
                ev.append({"ev": "RemoveStage"})
        elif in_stage and d and name in ("mkdirat", "openat", "write"):
            if name == "openat" and "O_CREAT" not in args:
                continue
            if d not in built:
                ev.append({"ev": "BuildStep", "d": d})
    if killed:
        ev.append({"ev": "Crash"})
    # collapse runs of identical BuildStep events (the model step is idempotent)
    out = []
    for e in ev:
        if out and e == out[-1] and e["ev"] in ("BuildStep", "RemoveBackupStep"):
            continue
        out.append(e)
    return out, points, killed


TRACE = "openat,mkdirat,renameat,renameat2,unlinkat,write,close"


def run_merge(vh, root, overwrite, log, inject=None):
    cmd = ["strace", "-f", "-qq", "-s", "2048", "-e", "trace=" + TRACE]
    if inject:
        cmd += ["-e", "inject=" + inject]
    cmd += ["-o", log, vh, "merge-run", "-root", root] + (["-overwrite"] if overwrite else [])
    subprocess.run(cmd, stdout=subprocess.PIPE, stderr=subprocess.PIPE, timeout=120)
    return merge_events(log, os.path.join(root, "dst"))


def observe(vh, root, seed, overwrite, cfg):
    p = subprocess.run([vh, "merge-observe", "-root", root, "-seed", str(seed), "-remerge"] + (["-overwrite"] if overwrite else []),
                       stdout=subprocess.PIPE, stderr=subprocess.PIPE, text=True, timeout=300)
    for line in p.stdout.splitlines():
        if line.startswith("{"):
            o = json.loads(line)
            o["pre"], o["post"] = cfg["pre"], cfg["post"]
            o["ifaces"] = [("stage-root" if x.startswith(".gpdb-merge-stage-") else x) for x in o["ifaces"]]
            if o.get("after_days") is None:
                o["after_days"] = {"1": [], "2": []}
            return o
    raise vlib.MachineryError("merge-observe failed: %s" % p.stderr[-1500:])


def experiment(vh, base, state, cname, cfg, point, seed, xid):
    x = sx.Experiment(xid, {"config": cname, "raw": point["raw"] if point else None, "when": point["when"] if point else None,
                            "path": point["path"] if point else None, "seed": seed})
    wd = os.path.join(base, "x%05d" % xid)
    shutil.copytree(state, wd, symlinks=True)
    try:
        inj = "%s:signal=SIGKILL:when=%d" % (point["raw"], point["when"]) if point else None
        ev, _, killed = run_merge(vh, wd, cfg["overwrite"], os.path.join(wd, "st.log"), inject=inj)
        if point and not killed:
            x.error = "child was not killed"
            return x
        x.events = [{"ev": "Reset", "x": xid}] + ev + [observe(vh, wd, seed, cfg["overwrite"], cfg)]
    except subprocess.TimeoutExpired:
        x.error = "timeout"
    finally:
        shutil.rmtree(wd, ignore_errors=True)
    return x


def classify(x, v):
    out = []
    obs = x.events[-1]
    for i, ok in enumerate(v["days_ok"]):
        if not ok or not v["query_ok"]:
            kf = v["backup_is_a_day"][i] if ok is False else any(v["backup_is_a_day"])
            out.append(({"kind": "backup-is-a-day" if kf else "day-view", "what": "day-data"}, "day %d" % (i + 1)))
            break
    if not v["ifaces_ok"]:
        stage_listed = "stage-root" in obs["ifaces"] and [i for i in obs["ifaces"] if i != "stage-root"] == ["eth0"]
        if stage_listed:
            kind = "stage-root-is-an-interface"
        elif obs["ifaces"] == ["eth0"] and any(v["backup_is_a_day"]):
            # the listing is right; the query over all interfaces fails on the left-over backup directory
            kind = "backup-is-a-day"
        else:
            kind = "interfaces"
        out.append(({"kind": kind, "what": "interface-listing"}, "interfaces"))
    if not v["remerge_ok"]:
        kind = "backup-is-a-day" if any(v["backup_is_a_day"]) else ("stage-root-is-an-interface" if v["stage_root"] and False else "remerge")
        out.append(({"kind": kind, "what": "later-merge"}, "later merge"))
    return out


def main():
    run = vlib.Run("C25", "fault_enumeration")
    thorough = run.tier == "thorough"
    vh = vlib.build_vh("store")
    if not sx.strace_ok():
        raise vlib.MachineryError("strace/ptrace not available")
    with vlib.Scratch("verif-c25-") as sc:
        r = vlib.tlc("mergecommit", "MergeCommitMC", "MergeCommitMC.cfg", coverage=True, scratch=sc, timeout=300,
                     consts="CONSTANT HasOld <- MCDays3" if thorough else None)
        vlib.expect_tlc_ok(r, "MergeCommitMC")
        if r.violation:
            raise vlib.MachineryError("MergeCommit violates %s on the model" % r.violation)
        for a in ("RenameToBackup", "RenameStagedIn", "RemoveBackupStep", "RemoveStage", "Crash"):
            vlib.require(r.coverage.get(a, (0, 0))[0] > 0, "vacuous: %s never taken" % a)
        run.add_tlc(r, "MergeCommitMC")
        n = vlib.tlc("mergecommit", "MergeCommitMC", "MergeCommitMC.cfg", scratch=sc, timeout=300, consts="INVARIANT EitherOr")
        vlib.require(n.violation == "EitherOr", "negative control: strict invariant not violated on the as-built model")
        xs = []
        xid = 0
        for cname, cfg in CONFIGS.items():
            base = os.path.join(sc, cname)
            state = os.path.join(base, "state")
            os.makedirs(state)
            subprocess.run([vh, "merge-setup", "-root", state, "-seed", str(run.seed)], check=True, stdout=subprocess.PIPE, stderr=subprocess.PIPE)
            rec = os.path.join(base, "rec")
            shutil.copytree(state, rec)
            ev, points, _ = run_merge(vh, rec, cfg["overwrite"], os.path.join(base, "rec.log"))
            vlib.require(any(e["ev"] == "RenameStagedIn" for e in ev), "recording of the clean merge has no commit")
            jobs = [(vh, base, state, cname, cfg, None, run.seed, xid)]
            xid += 1
            if not thorough and len(points) > 140:
                # quick: every call of the commit phase, every 3rd call of the (long) staging phase
                keep = [p for i, p in enumerate(points) if ".gpdb-merge-stage-" not in p["path"] or "backup" in p["path"] or i % 3 == 0
                        or p["raw"] in ("renameat", "unlinkat")]
                points = keep
            for p in points:
                jobs.append((vh, base, state, cname, cfg, p, run.seed, xid))
                xid += 1
            xs += sx.parallel(experiment, jobs)
        bad = [x for x in xs if x.error]
        vlib.require(len(bad) <= len(xs) // 20, "too many failed experiments: %s" % [b.error for b in bad[:3]])
        # validate
        todo = [x for x in xs if not x.error]
        lines, owner = [], []
        for x in todo:
            for e in x.events:
                lines.append(json.dumps(e, separators=(",", ":")))
                owner.append(x.xid)
        drift = {}
        verdicts = {}
        for attempt in range(10):
            t = vlib.tlc("mergecommit", "MergeCommitTraceMC", "MergeCommitTrace.cfg", workers=1, files={"trace.ndjson": "\n".join(lines) + "\n"},
                         scratch=sc, timeout=900)
            if t.error and not t.violation:
                raise vlib.MachineryError("MergeCommitTrace: %s\n%s" % (t.error, t.stdout[-2000:]))
            run.add_tlc(t, "MergeCommitTrace")
            for v in t.infos:
                if isinstance(v, dict) and "line" in v:
                    verdicts[owner[v["line"] - 1]] = v
            if not t.violation:
                break
            consumed = next((m["consumed"] for m in t.mismatches if isinstance(m, dict) and "consumed" in m), None)
            vlib.require(consumed is not None and consumed < len(lines), "trace rejected without position")
            badx = owner[consumed]
            drift[badx] = {"event": json.loads(lines[consumed]), "prev": json.loads(lines[consumed - 1])}
            first = owner.index(badx)
            keep = [i for i in range(len(lines)) if i > first and owner[i] != badx]
            lines, owner = [lines[i] for i in keep], [owner[i] for i in keep]
            if not lines:
                break
        kinds = {}
        run.cov["deviation_classes"] = kinds
        for x in todo:
            run.count(1)
            run.distinct((x.desc["config"], x.desc["raw"], x.desc["when"]))
            if x.xid in drift:
                run.drift.append({"experiment": x.desc, "at": drift[x.xid]})
                o = x.events[-1]
                okd = all(o["days"][d] in (o["pre"][d], o["post"][d]) and not o["doubled"][d] and not o["other"][d] for d in ("1", "2"))
                if not okd or o["query_err"] or o["ifaces"] != ["eth0"] or o["remerge_err"]:
                    run.violation({"kind": "unmodelled-step-and-bad-observation", "config": x.desc["config"]}, {"experiment": x.desc, "observation": o})
                continue
            v = verdicts.get(x.xid)
            vlib.require(v is not None, "no verdict for experiment %s" % x.desc)
            run.cov["traces_validated_against_impl"] += 1
            for d, why in classify(x, v):
                kinds[json.dumps(d, sort_keys=True)] = kinds.get(json.dumps(d, sort_keys=True), 0) + 1
                run.violation(dict(d, config=x.desc["config"]), {"experiment": x.desc, "verdict": v, "observation": x.events[-1], "why": why})
            if not all(v["conf_days"]):
                run.drift.append({"experiment": x.desc, "conformance": v})
        mid = todo[len(todo) // 2]
        run.sample({"experiment": mid.desc, "events": [e["ev"] for e in mid.events]})
    run.cov["rule"] = "one experiment per (plan, file-system call below the destination root): SIGKILL on entry of that call; distinct = (plan, syscall, ordinal)"
    run.cov["exhaustive"] = thorough
    run.assumptions += ["crash = process kill between system calls", "quick tier samples every 3rd call of the staging phase (all calls of the commit phase)"]
    return run.finish()


def replay(path):
    print(json.dumps(json.load(open(path)), indent=1)[:4000])
    return 2
