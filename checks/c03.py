"""C03 - day metadata survives reopening for every accepted write history.

M  MetaCodecMC: all session histories (Open / Write(ts, counts) / Close) over scaled extreme values
   (equal, earlier, +1 timestamps; the largest representable gap and beyond; counts 0, 1, MaxU32, MaxU32+1):
   invariants RoundTrip (reopened = committed) and Ordered; the negative run without the "earlier timestamp"
   rejection must violate RoundTrip.
F  every TLC-generated history is executed through the real GPDir writer with the extremes concretised
   (2^32-1 / 2^32 second gaps, 2^32-1 / 2^32 counts, a block one second older than its predecessor, duplicate
   timestamps); every result (ok / error) and the reopened day are compared with the specification.
   MetaFile.tla enumerates the classes of malformed metadata files (truncation at every field boundary,
   impossible block counts, trailing garbage ...); each is applied to a valid day and opened by the real
   reader and writer; seeded bit flips / random byte strings on top.
"""
import json
import os

import vlib
from checks import store_exp as sx

MANIFEST = {
    "level": "model_checking",
    "technique": "TLA+ spec MetaCodec (format widths, delta encoding) checked by TLC + TLC-generated write histories replayed through the "
                 "real GPDir writer/reader + TLC-enumerated malformed-file classes opened by the real code",
    "text": "The metadata codec is specified with its field widths; TLC checks round trip on all bounded histories and generates them for "
            "replay with real extreme values; acceptance / rejection and the reopened contents must equal the specification. Malformed "
            "files: every field-boundary truncation etc. is enumerated by TLC, arbitrary byte strings are sampled.",
    "note": "Histories of <= 3-4 block writes per model run (longer ones simulated); arbitrary malformed byte strings are sampled, not "
            "enumerated; only the gpfile layer is driven (DBWriter and CSV import sit on top of it).",
    "ref": "6.1 C03",
}


def main():
    run = vlib.Run("C03", "model_checking")
    thorough = run.tier == "thorough"
    vh = vlib.build_vh("store")
    with vlib.Scratch("verif-c03-") as sc:
        r = vlib.tlc("store", "MetaCodecMC", "MetaCodecMC.cfg", scratch=sc, timeout=1800, coverage=False,
                     consts=None if thorough else "CONSTANT MaxOps = 2")
        vlib.expect_tlc_ok(r, "MetaCodecMC")
        if r.violation:
            raise vlib.MachineryError("MetaCodec violates %s on the model" % r.violation)
        run.add_tlc(r, "MetaCodecMC")
        n = vlib.tlc("store", "MetaCodecMC", "MetaCodecMC.cfg", scratch=sc, timeout=600,
                     consts="CONSTANT RejectNegativeDelta = FALSE\nCONSTANT MaxOps = 2")
        vlib.require(n.violation == "RoundTrip", "negative control: codec without the negative-delta check was not rejected")
        run.cov["negative_control_model"] = "RejectNegativeDelta=FALSE violates RoundTrip"

        # ---- F1: histories
        g = vlib.tlc("store", "MetaCodecMC", "MetaCodecGen.cfg", scratch=sc, timeout=1200, workers=4,
                     simulate=(2500 if thorough else 400), depth=14, seed=run.seed, consts="CONSTANT MaxOps = %d" % (9 if thorough else 7))
        vlib.expect_tlc_ok(g, "MetaCodecGen-sim")
        behs = sorted(g.traces, key=lambda b: json.dumps(b, sort_keys=True))
        g2 = vlib.tlc("store", "MetaCodecMC", "MetaCodecGen.cfg", scratch=sc, timeout=1200, consts="CONSTANT MaxOps = 3")
        vlib.expect_tlc_ok(g2, "MetaCodecGen-3")
        # exhaustive depth 3 = Open, Write, Close ...; keep those that contain a Close (others commit nothing)
        behs += [b for b in g2.traces if any(s["act"]["name"] == "Close" for s in b)]
        run.add_tlc(g2, "MetaCodecGen")
        # timestamp orders: histories over the 6 timestamps only (one count vector), several writes per session
        g3 = vlib.tlc("store", "MetaCodecMC", "MetaCodecGen.cfg", scratch=sc, timeout=1200, workers=4,
                      simulate=(4000 if thorough else 900), depth=14, seed=run.seed + 7,
                      consts="CONSTANT MaxOps = 8\nCONSTANT TsOnly = TRUE")
        vlib.expect_tlc_ok(g3, "MetaCodecGen-ts")
        behs += g3.traces
        vlib.require(len(behs) > 300, "too few histories generated")
        root = os.path.join(sc, "meta")
        os.makedirs(root)
        rc, outs, _ = vlib.run_vh(vh, ["meta-replay", "-root", root], stdin_lines=[json.dumps(b, separators=(",", ":")) for b in behs],
                                  timeout=1800)
        summ = [o for o in outs if o.get("summary")]
        vlib.require(summ and summ[0]["behaviours"] == len(behs), "meta-replay did not process all histories")
        run.count(summ[0]["steps"])
        run.cov["traces_validated_against_impl"] += len(behs)
        rejected = 0
        for b in behs:
            run.distinct(json.dumps([s["act"] for s in b], sort_keys=True))
            rejected += sum(1 for s in b if s["exp"]["res"] == "err")
        run.cov["steps_the_specification_rejects"] = rejected
        vlib.require(rejected > 20, "generated histories hardly exercise rejection")
        run.sample({"kind": "write history", "steps": [s["act"] for s in behs[3]]})
        for o in outs:
            if o.get("ok") is False:
                run.violation(dict(o.get("desc", {}), binding="F"), {"kind": "meta-replay", "behaviour": o.get("behaviour"),
                                                                       "step": o.get("step"), "msg": o.get("msg")})
        # negative control of the replay: flip one expected result
        bad = json.loads(json.dumps(behs[3]))
        for s in bad:
            if s["act"]["name"] == "Open":
                s["exp"]["res"] = "err"
                break
        rc, nouts, _ = vlib.run_vh(vh, ["meta-replay", "-root", root], stdin_lines=[json.dumps(bad)], timeout=60)
        vlib.require(any(o.get("ok") is False for o in nouts), "negative control: corrupted expectation accepted by meta-replay")

        # ---- F2: malformed files
        m = vlib.tlc("store", "MetaFile", "MetaFile.cfg", scratch=sc, timeout=300)
        vlib.expect_tlc_ok(m, "MetaFile")
        cases = list(m.traces[0])
        vlib.require(len(cases) > 100, "MetaFile produced too few classes")
        nfuzz = 60000 if thorough else 3000
        for i in range(nfuzz):
            cases.append({"cls": "bitflip" if i % 2 == 0 else "random", "blocks": 1 + i % 4, "arg": (i * 7919 + run.seed) % 900, "exp": "any"})
        shards = [cases[k::8] for k in range(8)]

        def one(k, sh):
            rt = os.path.join(sc, "fuzz%d" % k)
            os.makedirs(rt)
            return vlib.run_vh(vh, ["meta-fuzz", "-root", rt, "-seed", str(run.seed * 100 + k)],
                               stdin_lines=[json.dumps(c) for c in sh], timeout=1800)
        res = sx.parallel(one, list(enumerate(shards)), workers=8)
        outs = [o for (_, os_, _) in res for o in os_]
        summs = [o for o in outs if o.get("summary")]
        vlib.require(sum(s["cases"] for s in summs) == len(cases), "meta-fuzz did not process all cases")
        run.count(len(cases))
        run.cov["malformed_files"] = {"classes_from_tlc": len(m.traces[0]), "seeded_fuzz": nfuzz,
                                      "opened_ok": sum(s["open_ok"] for s in summs), "open_errors": sum(s["open_errors"] for s in summs)}
        for c in m.traces[0]:
            run.distinct(json.dumps(c, sort_keys=True))
        for o in outs:
            if o.get("ok") is False:
                run.violation(dict(o.get("desc", {}), binding="F"), {"kind": "meta-fuzz", "case": o.get("case"), "msg": o.get("msg")})
    run.cov["rule"] = ("histories: sessions of Open/Write/Close over 6 scaled timestamps x 12 count vectors (all of depth 3, simulated up to depth "
                       "7-9); distinct = distinct action sequences; malformed files: TLC-enumerated classes x 1..3 blocks + seeded fuzz")
    run.assumptions += ["scaled values map to the real 32-bit limits as stated in harness/internal/store/meta.go"]
    return run.finish()


def replay(path):
    d = json.load(open(path))["replay"]
    vh = vlib.build_vh("store")
    with vlib.Scratch("verif-c03r-") as sc:
        if d["kind"] == "meta-replay":
            rc, outs, _ = vlib.run_vh(vh, ["meta-replay", "-root", sc], stdin_lines=[json.dumps(d["behaviour"])])
        else:
            rc, outs, _ = vlib.run_vh(vh, ["meta-fuzz", "-root", sc], stdin_lines=[json.dumps(d["case"])])
    bad = [o for o in outs if o.get("ok") is False]
    print(json.dumps(bad or outs, indent=1)[:3000])
    return 1 if bad else 0
