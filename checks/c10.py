"""C10 - condition text is parsed robustly and its canonical form keeps its meaning.

M  CondSyntaxMC: the preparation mechanism (Sanitize ; Check ; Store ; Reprepare) explored for
   every tree of the bounded domain typed in every style and for all short token sequences:
   accepted iff well-formed, the canonical form keeps the meaning and is a fixed point; spellings
   are unambiguous and typing/reading round-trips.  Negative run: the as-built "shared whitespace"
   sanitiser (SharedWhitespace) must violate AcceptIffWellFormed.
F  CondSyntaxGen: (a) every token sequence of length <= 4 (5 thorough) over a 14-token alphabet is
   classified by the specification and prepared by the real Args.Prepare; (b) every tree of height
   <= 2 over two atoms plus the help text's examples and every comparator spelling, typed with every
   documented operator spelling, brace kind, bracing style and whitespace variant, each prepared
   16 times: accepted, Statement.Condition re-parses to the model's selection over the 24 flows and
   is a fixed point of Prepare, identical across the 16 preparations.
   (c) a deterministic number sweep (every number of every seed text replaced by boundary values) and a
   seeded byte-mutation fuzz of the rendered texts: no panic, no hang, canonical form of every
   accepted mutant is accepted again unchanged.
"""
import json
import os
import sys
import time
import vlib

_T0 = [time.time()]


def _phase(label):
    if os.environ.get("VERIF_DEBUG"):
        sys.stderr.write("[%s] %-28s %.1fs\n" % (__name__, label, time.time() - _T0[0]))
    _T0[0] = time.time()

MANIFEST = {
    "level": "model_checking",
    "technique": "TLA+ spec CondSyntax (grammar recogniser, spelling table, preparation mechanism): TLC exhaustive, "
                 "TLC-classified token sequences and TLC-typed trees replayed on query.Args.Prepare (16x each), seeded mutation fuzz",
    "text": "CondSyntax.tla defines the documented grammar, every operator spelling of the help text and the Sanitize/Check/Store "
            "mechanism; TLC checks accept-iff-well-formed, meaning preservation and idempotence of the canonical form. All token "
            "sequences up to length 4/5 over 14 tokens and all trees of height <=2 in every spelling/brace/whitespace variant are "
            "prepared by the real code 16 times each; acceptance, the selection of Statement.Condition over the flow universe and "
            "re-preparation are compared with the specification; a byte-mutation fuzz covers arbitrary text (no panic / hang).",
    "note": "Level is exploration for part (c). Host-name values (DNS) and doubled negation are unjudged (documentation silent / "
            "environment dependent). Go map iteration order cannot be forced: 16 preparations per text sample it.",
    "ref": "6.3 C10",
}

PUNCT = {"(": "LP", ")": "RP", "[": "LP", "]": "RP", "{": "LP", "}": "RP", "!": "NOT", "&": "AND", "|": "OR"}
CMPS = {"=", "!=", "<", "<=", ">", ">="}
ATTRS = {"sip", "dip", "snet", "dnet", "dport", "proto", "src", "dst", "host", "net", "port", "protocol", "ipproto"}
WORDKIND = {"not": "not-word", "and": "binop-word", "or": "binop-word"}


def shape(toks):
    out = []
    for t in toks:
        if t in PUNCT:
            out.append(PUNCT[t])
        elif t in CMPS:
            out.append("CMP")
        elif t in ATTRS:
            out.append("ATTR")
        else:
            out.append("VAL")
    return " ".join(out)


def word_pairs(toks, ws):
    """kinds of directly adjacent word-form operators (they compete for the whitespace between them)"""
    pairs = set()
    for i in range(1, len(toks)):
        if toks[i] in ws and toks[i - 1] in ws:
            pairs.add("%s+%s" % (WORDKIND.get(toks[i - 1], "cmp-word"), WORDKIND.get(toks[i], "cmp-word")))
    return sorted(pairs)


def classify(o, fact, ws):
    part, kind = o.get("part"), fact["kind"]
    toks = o.get("toks") or o["text"].split()
    if kind == "panic":
        return {"cls": "panic", "part": part}
    if part == "seq":
        if kind in ("reject-wellformed", "accept-illformed", "unstable"):
            return {"cls": kind, "part": "seq", "shape": shape(toks)}
        return {"cls": kind, "part": "seq"}
    if kind in ("reject-wellformed", "unstable"):
        pairs = word_pairs(toks, ws)
        cls = "reject-documented-spelling" if kind == "reject-wellformed" else "map-order-dependent"
        if pairs:
            return {"cls": cls, "cause": "adjacent-word-operators", "pairs": "|".join(pairs)}
        return {"cls": cls, "cause": "other", "variant": o.get("variant"),
                "spellings": "|".join(sorted({t for t in toks if t in ws or t in ("&&", "||", "*", "+", "==", "===", "[", "{")}))}
    return {"cls": kind, "part": part}


def main():
    run = vlib.Run("C10", "model_checking")
    thorough = run.tier == "thorough"
    vh = vlib.build_vh("cond")
    agg = {}

    def add(desc, replay_line, example):
        k = json.dumps(desc, sort_keys=True)
        e = agg.setdefault(k, {"desc": desc, "count": 0, "lines": [], "examples": []})
        e["count"] += 1
        if len(e["examples"]) < 3:
            e["lines"].append(replay_line)
            e["examples"].append(example)

    with vlib.Scratch("verif-c10-") as sc:
        # ---------------------------------------------------------------- M
        r = vlib.tlc("cond", "CondSyntaxMC", "CondSyntaxMC.cfg", coverage=True, scratch=sc, timeout=1500,
                     consts="CONSTANT Thorough = %s" % ("TRUE" if thorough else "FALSE"))
        vlib.expect_tlc_ok(r, "CondSyntaxMC")
        if r.violation:
            raise vlib.MachineryError("CondSyntax design violates %s (spec error, not a code verdict)\n%s" %
                                      (r.violation, "\n".join(r.cex[:40])))
        for a in ("Sanitize", "Check", "Store", "Reprepare"):
            vlib.require(r.coverage.get(a, (0, 0))[0] > 0, "vacuous: action %s never taken" % a)
        run.add_tlc(r, "CondSyntaxMC")
        _phase("M CondSyntaxMC")
        n1 = vlib.tlc("cond", "CondSyntaxNeg", "CondSyntaxNeg.cfg", scratch=sc, timeout=900)
        vlib.require(n1.violation == "AcceptIffWellFormed",
                     "negative run: the shared-whitespace sanitiser must violate AcceptIffWellFormed, got %s / %s" % (n1.violation, n1.error))
        run.cov["negative_model_runs"] = ["SharedWhitespace=TRUE violates AcceptIffWellFormed"]
        _phase("M negative run")

        # ---------------------------------------------------------------- F (a) + (b)
        maxlen = 5 if thorough else 4
        g = vlib.tlc("cond", "CondSyntaxGen", "CondSyntaxGen.cfg", scratch=sc, timeout=2400,
                     consts="CONSTANTS MaxLen = %d\n GenThorough = %s" % (maxlen, "TRUE" if thorough else "FALSE"))
        vlib.expect_tlc_ok(g, "CondSyntaxGen")
        vlib.require(g.infos and len(g.traces) > 500, "generator produced too few lines")
        run.add_tlc(g, "CondSyntaxGen")
        _phase("F generator")
        info = g.infos[0]
        ws = set(info["wswords"])
        lines = sorted(g.traces, key=lambda t: (t["kind"], json.dumps(t.get("pre") or t.get("tree"), sort_keys=True)))
        reps_seq, reps_tree, variants = (16, 16, 5) if thorough else (4, 16, 5)
        args = ["condsyn-replay", "-reps-seq", str(reps_seq), "-reps-tree", str(reps_tree), "-variants", str(variants), "-workers", "4"]
        rc, outs, _ = vlib.run_vh(vh, args, stdin_lines=[json.dumps(info)] + [json.dumps(t, separators=(",", ":")) for t in lines],
                                  timeout=3000)
        _phase("F replay")
        summ = [o for o in outs if o.get("summary")]
        vlib.require(summ, "condsyn-replay gave no summary")
        summ = summ[0]
        na = len(info["alpha"])
        vlib.require(summ["sequences"] == sum(na ** k for k in range(1, maxlen + 1)), "token sequence domain incomplete: %s" % summ)
        vlib.require(summ["wellformed"] >= 7 and summ["unjudged"] > 0 and summ["illformed"] > 1000, "degenerate classification %s" % summ)
        run.count(summ["preparations"])
        run.cov.update(token_sequences=summ["sequences"], wellformed_sequences=summ["wellformed"], unjudged_sequences=summ["unjudged"],
                       illformed_sequences=summ["illformed"], spelled_texts=summ["spelled_texts"],
                       preparations_per_spelled_text=reps_tree, preparations_per_sequence=reps_seq)
        run.cov["traces_validated_against_impl"] += summ["sequences"] + summ["spelled_texts"]
        ntrees = 0
        for t in lines:
            if t["kind"] == "tree":
                ntrees += 1
                for x in t["texts"]:
                    run.distinct(" ".join(x))
        run.cov["syntax_trees"] = ntrees
        tl = [t for t in lines if t["kind"] == "tree"]
        run.sample({"kind": "typed tree", "tree": tl[len(tl) // 2]["tree"], "texts": [" ".join(x) for x in tl[len(tl) // 2]["texts"][:4]]})
        nfacts = 0
        for o in outs:
            if o.get("ok") is not False:
                continue
            for f in o["facts"]:
                nfacts += 1
                desc = classify(o, f, ws)
                exp = None
                if o["part"] == "tree":
                    exp = next(t["exp"] for t in tl if t["tree"] == o["tree"])
                # (the error text of a rejection depends on the sanitiser's map order: not stored, replay shows it)
                fx = {"kind": f["kind"]} if f["kind"] in ("reject-wellformed", "unstable") else \
                    {"kind": f["kind"], "msg": f.get("msg", "").split("\n")[0]}
                add(desc, {"kind": "text", "text": o["text"], "class": o["class"], "exp": exp, "reps": reps_tree},
                    {"text": o["text"], "fact": fx, "accepts": o["accepts"], "rejects": o["rejects"], "canons": (o.get("canons") or [])[:3]})
        run.cov["failing_facts"] = nfacts

        # negative controls: a wrong class code and a wrong predicted selection must be flagged
        okline = next(t for t in tl if t["tree"]["k"] == "and" and t["tree"]["l"]["k"] == "atom" and t["tree"]["r"]["k"] == "atom")
        oktext = " & ".join("%s %s %s" % (a["attr"], a["cmp"], a["v"]) for a in (okline["tree"]["l"], okline["tree"]["r"]))
        ctl = [{"kind": "text", "text": oktext, "class": 1, "exp": okline["exp"], "reps": 4},
               {"kind": "text", "text": oktext, "class": 0, "exp": None, "reps": 4},
               {"kind": "text", "text": oktext, "class": 1, "exp": [not x for x in okline["exp"]], "reps": 4}]
        rc, co, _ = vlib.run_vh(vh, ["condsyn-replay"], stdin_lines=[json.dumps(info)] + [json.dumps(c) for c in ctl])
        kinds = [[f["kind"] for f in o["facts"]] for o in co if o.get("ok") is False]
        vlib.require(kinds == [["accept-illformed"], ["canon-selection"]],
                     "negative control: corrupted class / selection not flagged as expected: %s" % kinds)
        run.cov["negative_control"] = "wrong class code and wrong predicted selection of a passing text rejected by the replay"

        # ---------------------------------------------------------------- F (c) fuzz
        seeds = []
        for i, t in enumerate(tl):
            xs = t["texts"]
            seeds.append(" ".join(xs[(i * 7) % len(xs)]))
        seeds = seeds[:400]
        # a few examples of the help text that carry networks, ports and protocol names
        seeds += ["dnet = 192.168.1.0/25 | snet = 172.16.22.0/12", "net != 192.168.1.0/24", "dport = 22 & proto = TCP",
                  "( proto eq TCP and snet neq 1.2.0.0/16 ) and ( dport le 1024 or dport ge 443 )",
                  "{ proto -eq TCP && snet -ne 1.2.0.0/16 } * { dport -leq 1024 || dport -geq 443 }",
                  "host != 192.168.1.34", "snet = 2001:db8::/32 | dip = 2001:db8::1", "! dport = 8080 | dport = 443 & proto = TCP"]
        nmut = 300000 if thorough else 10000
        rc, fo, _ = vlib.run_vh(vh, ["condsyn-fuzz", "-seed", str(run.seed), "-n", str(nmut)],
                                stdin_lines=[json.dumps(info)] + [json.dumps(s) for s in seeds], timeout=3000)
        _phase("F fuzz")
        fs = [o for o in fo if o.get("summary")]
        hang = [o for o in fo if o.get("kind") == "hang"]
        for o in hang:
            add({"cls": "hang"}, {"kind": "text", "text": o["text"], "class": 2, "exp": None, "reps": 1}, {"text": o["text"]})
        vlib.require(fs or hang, "condsyn-fuzz gave no summary")
        if fs:
            run.count(fs[0]["mutants"] + fs[0]["swept"])
            run.cov["fuzz_mutants"] = fs[0]["mutants"]
            run.cov["fuzz_number_sweep"] = fs[0]["swept"]
            run.cov["fuzz_accepted"] = fs[0]["accepted"]
        for o in fo:
            if o.get("ok") is False and o.get("part") == "fuzz":
                for f in o["facts"]:
                    desc = {"cls": "fuzz-" + f["kind"]}
                    if f["kind"] == "panic":
                        desc["at"] = o.get("at", "")
                    add(desc, {"kind": "text", "text": o["text"], "class": 2, "exp": None, "reps": 1},
                        {"text": o["text"], "how": o.get("how"), "fact": {"kind": f["kind"], "msg": f.get("msg", "").split("\n")[0]}})

    for k in sorted(agg):
        e = agg[k]
        run.violation(e["desc"], {"kind": "condsyn", "info": info, "lines": e["lines"], "count": e["count"], "examples": e["examples"]})
    run.cov["violation_classes"] = {k: v["count"] for k, v in sorted(agg.items())}
    run.cov["rule"] = ("(a) all %d token sequences of length <=%d over %d tokens x %d preparations; (b) %d syntax trees in every "
                       "spelling/brace/bracing style x %d whitespace variants x %d preparations; (c) %d byte mutants; distinct = "
                       "distinct surface token lists" % (summ["sequences"], maxlen, na, reps_seq, ntrees, variants, reps_tree, nmut))
    run.assumptions += ["unjudged: an address attribute compared with a host-name-like word (DNS dependent) and doubled negation '! ! x'",
                        "other Prepare arguments are fixed and valid (query type, interface, format, time range)",
                        "Go map iteration order is sampled by repeated preparation, it cannot be forced from outside",
                        "the selection of Statement.Condition is computed with node.ParseAndInstrument on the 24-flow universe; "
                        "syntax atoms avoid the network values that trip the C09 findings"]
    return run.finish(exhaustive=True)


def replay(path):
    d = json.load(open(path))["replay"]
    vh = vlib.build_vh("cond")
    rc, outs, _ = vlib.run_vh(vh, ["condsyn-replay"], stdin_lines=[json.dumps(d["info"])] + [json.dumps(l) for l in d["lines"]])
    bad = [o for o in outs if o.get("ok") is False]
    for o in bad:
        print(repr(o["text"]), "accepts=%s rejects=%s" % (o["accepts"], o["rejects"]))
        for f in o["facts"]:
            print("   ", f["kind"], f.get("msg", "")[:300].replace("\n", " | "))
    if not bad:
        print("not reproduced (class 2 texts such as fuzz mutants are only checked for panics here)")
    return 1 if bad else 0
