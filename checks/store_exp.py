"""Experiments of the storage family: real write sessions in child processes under strace, optional
kill / error injection at a chosen system call, observations by the real reader / query engine /
listing, all turned into one NDJSON trace that GPStoreTrace.tla validates."""
import json
import os
import shutil
import subprocess
import sys
from concurrent.futures import ThreadPoolExecutor

import vlib

sys.path.insert(0, os.path.join(vlib.VERIF, "lib"))
import strace2nd  # noqa: E402

TRACE_SET = "openat,mkdirat,mkdir,renameat,renameat2,rename,write,pwrite64,lseek,unlinkat,unlink,fchmodat,chmod," \
            "getdents64,newfstatat,close,fsync,fdatasync,ftruncate"
IFACE = "eth0"


def strace_ok():
    try:
        p = subprocess.run(["strace", "-qq", "-e", "trace=write", "-o", "/dev/null", "true"], capture_output=True)
        return p.returncode == 0
    except FileNotFoundError:
        return False


class Sess:
    """result of one write session run under strace"""

    def __init__(self):
        self.calls = []
        self.killed = False
        self.events = []
        self.rc = None
        self.raw_counts = {}     # per call index: (raw syscall name, ordinal among same-name calls of the main thread)


def run_session(vh, db, sessions, seed, enc, profile, workdir, tag, inject=None, level=0, obs=False, obs0=False):
    """sessions: list of id lists, all executed by one child"""
    log = os.path.join(workdir, "st-%s.log" % tag)
    cmd = ["strace", "-f", "-qq", "-s", "16384", "-e", "trace=" + TRACE_SET]
    if inject:
        cmd += ["-e", "inject=" + inject]
    cmd += ["-o", log, vh, "store-write", "-db", db, "-iface", IFACE, "-seed", str(seed), "-enc", enc,
            "-sessions", ";".join(",".join(map(str, ids)) for ids in sessions), "-profile", profile, "-level", str(level)]
    if obs:
        cmd.append("-obs")
    if obs0:
        cmd.append("-obs0")
    p = subprocess.run(cmd, stdout=subprocess.PIPE, stderr=subprocess.PIPE, timeout=120)
    s = Sess()
    s.rc = p.returncode
    root = db.rstrip("/") + "/"
    s.calls, s.killed = strace2nd.fs_calls(log, root)
    s.events = strace2nd.to_events(s.calls, s.killed)
    # ordinal of every FS call among the calls with the same syscall name made by the main thread
    allcalls, _ = strace2nd.parse(log)
    # the write session runs on the (locked) thread that writes the markers
    mainpid = next((c[0] for c in allcalls if c[1] == "write" and "VEVENT " in c[2]), allcalls[0][0] if allcalls else None)
    counts = {}
    ordinal = {}
    for idx, (pid, name, args, ret, tail) in enumerate(allcalls):
        if pid != mainpid:
            continue
        counts[name] = counts.get(name, 0) + 1
        ordinal[idx] = (name, counts[name])
    s.raw_counts = ordinal
    if not os.environ.get("VERIF_KEEP"):
        try:
            os.remove(log)
        except OSError:
            pass
    return s


def observe(vh, db, seed, profile):
    p = subprocess.run([vh, "store-observe", "-db", db, "-iface", IFACE, "-seed", str(seed), "-profile", profile],
                       stdout=subprocess.PIPE, stderr=subprocess.PIPE, text=True, timeout=300)
    if p.returncode != 0:
        raise vlib.MachineryError("store-observe failed: %s" % p.stderr[-2000:])
    for line in p.stdout.splitlines():
        if line.startswith("{"):
            return json.loads(line)
    raise vlib.MachineryError("store-observe printed nothing: %s" % p.stderr[-500:])


def session_points(sess, root=None):
    """injection points of a recorded clean session: the FS calls between the W_Begin and W_Return markers"""
    pts = []
    inside = False
    begin = 0
    for ci, c in enumerate(sess.calls):
        if c["name"] == "marker":
            inside = c["marker"]["ev"] == "W_Begin"
            if inside:
                begin = ci
            continue
        if inside and c["i"] in sess.raw_counts:
            name, k = sess.raw_counts[c["i"]]
            pt = {"raw": name, "when": k, "call": c["name"], "path": c.get("path", "").rsplit("/", 1)[-1],
                  "nev": len(strace2nd.to_events(sess.calls[begin:ci], False))}
            if c["name"] == "write" and c.get("data") is not None and c["path"].endswith(".gpf") and c["n"] >= 2:
                # enough is known to synthesise a torn write of this call (prefix of its data at its offset)
                pt["torn"] = {"rel": os.path.relpath(c["path"], root) if root else None, "pos": c["pos"], "data": c["data"]}
            pts.append(pt)
    return pts


class Experiment:
    def __init__(self, xid, desc):
        self.xid = xid
        self.desc = desc          # abstract descriptor of the experiment (for replay / known findings)
        self.events = []
        self.error = None
        self.fired = True
        self.nev = None           # events of the recorded session that precede the planned injected call


def _as_planned(x, s_idx, recorded):
    """The child is deterministic: up to the injected call (Fault / Crash event) the events of the injected
    session must repeat the recording of the clean run.  Anything else is a problem of the measurement
    (ordinal of the injected call shifted by the runtime's own calls, a line of the log not attributed) -
    not behaviour of the code under the planned fault."""
    if x.error or x.desc["mode"] == "clean" or s_idx >= len(recorded):
        return True
    pre = 1 + sum(len(recorded[k]) for k in range(s_idx))
    got = [e for e in x.events[pre:] if e["ev"] != "Observe"]
    nev = x.nev
    if nev is None:
        return True
    return got[:nev] == recorded[s_idx][:nev]


def run_experiment(vh, base, hist, upto_state, s_idx, point, mode, errno, seed, enc, profile, xid, recorded):
    """Runs the experiment; repeats it (up to three times) when the injected session does not repeat the
    recording up to the injected call, and gives it up (error set, counted, never judged) after that."""
    x = None
    for attempt in range(3):
        x = _run_experiment_once(vh, base, hist, upto_state, s_idx, point, mode, errno, seed, enc, profile, xid, recorded, attempt)
        if _as_planned(x, s_idx, recorded):
            return x
    x.error = "unplanned: the injected session did not repeat the recording up to the injected call (3 attempts)"
    return x


def _run_experiment_once(vh, base, hist, upto_state, s_idx, point, mode, errno, seed, enc, profile, xid, recorded, attempt=0):
    """mode: 'kill' | 'fault' | 'clean'. upto_state: directory holding the DB after sessions < s_idx (or None)."""
    x = Experiment(xid, {"mode": mode, "session": s_idx, "ids": hist[s_idx] if s_idx < len(hist) else [],
                         "raw": point["raw"] if point else None, "when": point["when"] if point else None,
                         "call": point["call"] if point else None, "file": point["path"] if point else None,
                         "errno": errno, "enc": enc, "profile": profile, "seed": seed})
    x.nev = point.get("nev") if point else None
    wd = os.path.join(base, "x%05d" % xid if not attempt else "x%05d-r%d" % (xid, attempt))
    os.makedirs(wd)
    db = os.path.join(wd, "db")
    try:
        if upto_state and os.path.isdir(upto_state):
            shutil.copytree(upto_state, db, symlinks=True)
        else:
            os.makedirs(db)
        ev = [{"ev": "Reset", "x": xid}]
        # replay the recorded clean prefix events (sessions < s_idx were executed when the state was prepared)
        for k in range(s_idx):
            ev += recorded[k]
        if mode == "kill":
            inj = "%s:signal=SIGKILL:when=%d" % (point["raw"], point["when"])
            s = run_session(vh, db, [hist[s_idx]], seed, enc, profile, wd, "inj", inject=inj)
            if not s.killed:
                x.error = "child was not killed (point %s)" % point
                return x
            ev += s.events
            rest = hist[s_idx + 1:]
            s2 = run_session(vh, db, rest, seed, enc, profile, wd, "rest", obs=True, obs0=True)
            ev += s2.events
        elif mode == "torn":
            # the child is killed on entry of a column write(); a strict prefix of that call's data is then
            # put into the file at the call's offset: the state a power-cut / kill inside the write leaves
            inj = "%s:signal=SIGKILL:when=%d" % (point["raw"], point["when"])
            s = run_session(vh, db, [hist[s_idx]], seed, enc, profile, wd, "inj", inject=inj)
            if not s.killed:
                x.error = "child was not killed (point %s)" % point
                return x
            t = point["torn"]
            k = errno  # number of bytes that made it (passed in the errno slot)
            tgt = os.path.join(db, os.path.relpath(os.path.join(point["dbroot"], t["rel"]), point["dbroot"]))
            # the day directory may carry another suffix than in the recording: locate the file by its base name
            cand = [os.path.join(dp, f) for dp, _, fs_ in os.walk(db) for f in fs_ if f == os.path.basename(t["rel"])]
            if len(cand) != 1:
                x.error = "torn write target not found"
                return x
            with open(cand[0], "r+b") as fh:
                fh.seek(t["pos"])
                fh.write(t["data"][:k])
            ev += [e for e in s.events if e["ev"] != "Crash"]
            ev.append({"ev": "TornWrite", "k": k})
            rest = hist[s_idx + 1:]
            s2 = run_session(vh, db, rest, seed, enc, profile, wd, "rest", obs=True, obs0=True)
            ev += s2.events
        elif mode == "fault":
            # the faulted session runs in a child of its own so that the injection can only hit the writer
            inj = "%s:error=%s:when=%d" % (point["raw"], errno, point["when"])
            s = run_session(vh, db, [hist[s_idx]], seed, enc, profile, wd, "inj", inject=inj)
            ev += s.events
            x.fired = any(e["ev"] == "Fault" for e in s.events)
            s2 = run_session(vh, db, hist[s_idx + 1:], seed, enc, profile, wd, "rest", obs=True, obs0=True)
            ev += s2.events
        else:
            s = run_session(vh, db, hist[s_idx:], seed, enc, profile, wd, "clean", obs=True)
            ev += s.events
        x.events = ev
    except subprocess.TimeoutExpired:
        x.error = "timeout"
    finally:
        if not os.environ.get("VERIF_KEEP"):
            shutil.rmtree(wd, ignore_errors=True)
    return x


def prepare_states(vh, base, hist, seed, enc, profile):
    """clean run of the whole history, keeping a copy of the DB before each session, the recorded
    events of each session and its injection points"""
    db = os.path.join(base, "clean-db")
    os.makedirs(db)
    states, recorded, points = [], [], []
    for k, ids in enumerate(hist):
        st = os.path.join(base, "state%d" % k)
        shutil.copytree(db, st, symlinks=True)
        states.append(st)
        s = run_session(vh, db, [ids], seed, enc, profile, base, "clean%d" % k)
        if s.rc != 0:
            raise vlib.MachineryError("clean session %s failed rc=%s" % (ids, s.rc))
        recorded.append(s.events)
        points.append(session_points(s, db))
    return states, recorded, points


def validate(run, experiments, sc, label, cfg="GPStoreTrace.cfg", consts=None):
    """TLC-validate the concatenated trace. Returns {xid: [verdict dicts]} and the set of drifted xids."""
    verdicts = {}
    drift = {}
    todo = [x for x in experiments if not x.error]
    for attempt in range(6):
        lines, owner = [], []
        for x in todo:
            for e in x.events:
                lines.append(json.dumps(e, separators=(",", ":")))
                owner.append(x.xid)
        if not lines:
            break
        t = vlib.tlc("store", "GPStoreTrace", cfg, workers=1, files={"trace.ndjson": "\n".join(lines) + "\n"},
                     scratch=sc, timeout=1800, heap="8g", consts=consts)
        if t.error and not t.violation:
            raise vlib.MachineryError("GPStoreTrace (%s): %s\n%s" % (label, t.error, t.stdout[-3000:]))
        run.add_tlc(t, "GPStoreTrace/" + label)
        for v in t.infos:
            if isinstance(v, dict) and "line" in v:
                xid = owner[v["line"] - 1]
                verdicts.setdefault(xid, []).append(v)
        if not t.violation:
            break
        consumed = None
        for m in t.mismatches:
            if isinstance(m, dict) and "consumed" in m:
                consumed = m["consumed"]
        if consumed is None or consumed >= len(lines):
            raise vlib.MachineryError("GPStoreTrace (%s) rejected without position: %s" % (label, t.stdout[-2000:]))
        bad = owner[consumed]  # the event at index `consumed` (0-based) was not enabled
        drift[bad] = {"event": json.loads(lines[consumed]), "prev": json.loads(lines[consumed - 1]) if consumed else None}
        # everything before this experiment has been judged already; drop it and the drifted one
        first = owner.index(bad)
        done = set(owner[:first])
        todo = [x for x in todo if x.xid not in done and x.xid != bad]
        for xid in list(verdicts):
            if xid == bad:
                del verdicts[xid]
    else:
        # still rejected after all attempts: the code has left the model in (nearly) every experiment; the
        # remaining ones are not validated action by action but judged by the property statement directly
        for x in todo:
            if x.xid not in drift and x.xid not in verdicts:
                drift[x.xid] = {"event": None, "prev": None, "note": "not validated: too many experiments left the model"}
    return verdicts, drift


def parallel(fn, jobs, workers=None):
    with ThreadPoolExecutor(max_workers=workers or min(12, vlib.NCPU)) as ex:
        return list(ex.map(lambda a: fn(*a), jobs))
