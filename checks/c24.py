"""C24 - merging databases follows the documented per-day plan.

M  MergeMC: the documented rule (Plan / Apply per interface and day, interface selection, overwrite, dry run,
   summary) explored exhaustively from every (source day, destination day) pair and from a grid of
   two-interface / two-day databases: source never modified, dry run changes nothing, idempotence,
   destination wins by default, overwrite prefers the source, only selected source days are touched,
   counts account for every source day.
F  MergeGen: every case (all pairs of days over a 6-slot day with <= 3 blocks incl. overlapping block
   timestamps with different payloads x overwrite x dry-run; grid of 2 interfaces x 2 days x interface
   selections incl. an unknown interface) is built with the real DBWriter, merged TWICE with the real
   goDB.MergeDatabases and observed through the real block reader and query engine; destination contents,
   day metadata, MergeSummary, source tree hash and (dry run) destination tree hash are compared with the
   model after each merge.
"""
import json
import os
import random
from concurrent.futures import ThreadPoolExecutor

import vlib

MANIFEST = {
    "level": "model_checking",
    "technique": "TLA+ spec Merge (documented per-day plan): TLC exhaustive + every TLC-generated (source, destination, options) "
                 "case built with the real writer, merged twice by goDB.MergeDatabases and read back through reader and query engine",
    "text": "Merge.tla defines Complete, Plan (copy / keep / rebuild), Apply, interface selection, dry run and the summary as the "
            "README and --help describe them. TLC proves the rule's algebra (idempotence, source untouched, destination wins by "
            "default, overwrite prefers source, counts) and enumerates all 42x42 pairs of days over a 6-slot day with up to 3 blocks "
            "(thorough: 64x64 incl. a block just beyond the tolerance) x overwrite x dry-run plus a 2-interface x 2-day grid x "
            "selections; the cases are executed on real databases and compared after each of two consecutive merges (thorough: "
            "every pair and a seeded 9000 of the 18432 grid cases; quick: every pair with <= 2 blocks per day plus a seeded sample of 700 three-block pairs and 500 grid cases).",
    "note": "Block positions are representative 5-minute-grid times (00:00 (+tolerance), tolerance+1 s, 04:00..16:00, 23:55); payloads, "
            "interface names, dates and the tolerance (150 s / 600 s) come from the seed. Cases in which the as-built completeness "
            "test (block duration inferred from the last gap) disagrees with full-day coverage carry gap_inferred_complete=true in "
            "their descriptor. Conflict counters are not judged for dry runs; for an unknown interface only 'nothing changes' is judged.",
    "ref": "6.7",
}

NPROC = min(8, max(2, (os.cpu_count() or 4) // 2))


def _sig(c):
    return json.dumps([c["sel"], c["ow"], c["dry"], c["src"], c["steps"][0]["pre"]], sort_keys=True)


def _norm(c):
    """TLC prints sets in arbitrary order: sort every list of the case for determinism"""
    def days(ds):
        for d in ds:
            d["blocks"] = sorted(d["blocks"], key=lambda b: b["slot"])
        return sorted(ds, key=lambda d: (d["iface"], d["day"]))
    c["sel"] = sorted(c["sel"])
    c["src"] = days(c["src"])
    for s in c["steps"]:
        s["pre"] = days(s["pre"])
        s["exp"]["dst"] = days(s["exp"]["dst"])
        s["plans"] = sorted(s["plans"], key=lambda p: (p["iface"], p["day"]))
    return c


def _replay(vh, cases, seed, sc, tag):
    if not cases:
        return [], {"cases": 0, "merges": 0, "failed": 0, "plans": {}}
    chunks = [c for c in (cases[i::NPROC] for i in range(NPROC)) if c]

    def one(ic):
        i, c = ic
        tmp = os.path.join(sc, "mrg-%s-%d" % (tag, i))
        os.makedirs(tmp, exist_ok=True)
        rc, outs, _ = vlib.run_vh(vh, ["merge-replay", "-seed", str(seed), "-tmp", tmp],
                                  stdin_lines=[json.dumps(b, separators=(",", ":")) for b in c], timeout=3000,
                                  env_extra={"GOMAXPROCS": "1"})
        return outs

    with ThreadPoolExecutor(len(chunks)) as ex:
        results = list(ex.map(one, enumerate(chunks)))
    fails, tot = [], {"cases": 0, "merges": 0, "failed": 0, "plans": {}}
    for c, outs in zip(chunks, results):
        summ = [o for o in outs if o.get("summary")]
        vlib.require(summ and summ[0]["cases"] == len(c), "merge-replay did not process all cases (%s)" % tag)
        for k in ("cases", "merges", "failed"):
            tot[k] += summ[0][k]
        for k, v in summ[0]["plans"].items():
            tot["plans"][k] = tot["plans"].get(k, 0) + v
        fails += [o for o in outs if o.get("ok") is False]
    fails.sort(key=lambda o: json.dumps([o.get("desc"), _sig(o["case"])], sort_keys=True))
    return fails, tot


def _cfg(name, **repl):
    s = open(os.path.join(vlib.SPEC, "merge", name)).read()
    for a, b in repl.items():
        vlib.require(a in s, "cfg %s has no %r" % (name, a))
        s = s.replace(a, b)
    return {"cfg_text": s}


def main():
    run = vlib.Run("C24", "model_checking")
    thorough = run.tier == "thorough"
    vh = vlib.build_vh("merge")
    with vlib.Scratch("verif-c24-") as sc:
        # ---- M (the documented rule) and the case generators: four independent TLC runs, started together
        if thorough:
            mcs = [("MergeMC_pairs(7 slots, <=3 blocks)", _cfg("MergeMC_pairs.cfg")), ("MergeMC_grid", _cfg("MergeMC_grid.cfg"))]
        else:
            mcs = [("MergeMC_pairs(6 slots, <=2 blocks)", _cfg("MergeMC_pairs.cfg", **{"MaxBlocks = 3": "MaxBlocks = 2",
                                                                                      "Slots = {1, 2, 3, 4, 5, 6, 7}": "Slots = {1, 3, 4, 5, 6, 7}"})),
                   ("MergeMC_grid(quick sets)", _cfg("MergeMC_grid.cfg", **{"<- GridSrc": "<- GridSrcQ", "<- GridDst": "<- GridDstQ"}))]
        pcfg = _cfg("MergeGen_pairs.cfg", **({"Slots = {1, 3, 4, 5, 6, 7}": "Slots = {1, 2, 3, 4, 5, 6, 7}"} if thorough else {}))
        nw = 4 if thorough else 2
        jobs = [lambda l=l, c=c: vlib.tlc("merge", "MergeMC", c, coverage=True, timeout=1200, workers=nw) for l, c in mcs]
        jobs.append(lambda: vlib.tlc("merge", "MergeGen", pcfg, timeout=1200, workers=nw))
        jobs.append(lambda: vlib.tlc("merge", "MergeGen", "MergeGen_grid.cfg" if thorough else "MergeGen_gridQ.cfg", timeout=1200, workers=nw))
        with ThreadPoolExecutor(len(jobs)) as ex:
            res = [f.result() for f in [ex.submit(j) for j in jobs]]
        for (label, _), r in zip(mcs, res[:2]):
            vlib.expect_tlc_ok(r, label)
            if r.violation:
                raise vlib.MachineryError("Merge rule violates %s (spec error, not a code verdict)" % r.violation)
            vlib.require(r.coverage.get("MergeDB", (0, 0))[0] > 0, "vacuous: MergeDB never taken")
            run.add_tlc(r, label)

        # ---- F: generated cases
        gens = []
        g, g2 = res[2], res[3]
        vlib.expect_tlc_ok(g, "MergeGen_pairs")
        vlib.require(len(g.traces) == (64 * 64 * 4 if thorough else 42 * 42 * 4), "pairs generator: %d cases" % len(g.traces))
        # (quick executes every pair with <= 2 blocks per day and a seeded sample of the 3-block pairs, thorough all)
        run.add_tlc(g, "MergeGen_pairs")
        gens.append(("pairs", g.traces))
        vlib.expect_tlc_ok(g2, "MergeGen_grid")
        vlib.require(len(g2.traces) >= 3000, "grid generator: %d cases" % len(g2.traces))
        run.add_tlc(g2, "MergeGen_grid")
        gens.append(("grid", g2.traces))

        allfails, plans, ctl = [], {}, None
        for tag, cases in gens:
            cases = sorted((_norm(c) for c in cases), key=_sig)
            generated = len(cases)
            if not thorough:
                # quick tier: all pairs of days with <= 2 blocks each, plus a seeded sample of the rest
                keep = [c for c in cases if tag == "pairs" and all(len(d["blocks"]) <= 2 for d in c["src"] + c["steps"][0]["pre"])]
                rest = [c for c in cases if not (tag == "pairs" and all(len(d["blocks"]) <= 2 for d in c["src"] + c["steps"][0]["pre"]))]
                rnd = random.Random(run.seed * 1000003 + len(rest))
                cases = sorted(keep + rnd.sample(rest, min(len(rest), 700 if tag == "pairs" else 500)), key=_sig)
            elif tag == "grid" and len(cases) > 9000:
                # thorough: all pairs, a seeded half of the grid
                cases = sorted(random.Random(run.seed * 7919 + 13).sample(cases, 9000), key=_sig)
            run.cov.setdefault("cases_generated", {})[tag] = generated
            fails, tot = _replay(vh, cases, run.seed, sc, tag)
            run.count(tot["merges"])
            run.cov["traces_validated_against_impl"] += len(cases)
            run.cov.setdefault("replay", {})[tag] = {k: v for k, v in tot.items() if k != "plans"}
            for k, v in tot["plans"].items():
                plans[k] = plans.get(k, 0) + v
            for c in cases:
                run.distinct(_sig(c))
            mid = cases[len(cases) // 2]
            run.sample({"kind": "case (%s)" % tag, "sel": mid["sel"], "overwrite": mid["ow"], "dry_run": mid["dry"], "src": mid["src"],
                        "dst": mid["steps"][0]["pre"], "plans": mid["steps"][0]["plans"], "expected_summary": mid["steps"][0]["exp"]["sum"]})
            if ctl is None:
                bad = {_sig(f["case"]) for f in fails}
                cands = [c for c in cases if not c["dry"] and _sig(c) not in bad and c["steps"][0]["plans"]
                         and c["steps"][0]["plans"][0]["plan"] == "rebuild" and c["steps"][0]["plans"][0]["conflicts"] > 0
                         and len(c["steps"][0]["exp"]["dst"][0]["blocks"]) >= 2]
                ctl = cands[len(cands) // 2] if cands else None
            allfails += [(tag, f) for f in fails]
        run.cov["plan_x_source_x_destination_days_executed"] = plans
        for must in ("copy/complete/missing", "copy/complete/complete", "copy/complete/partial", "skip/complete/complete",
                     "rebuild/partial/missing", "rebuild/partial/partial", "rebuild/partial/complete", "rebuild/complete/partial"):
            vlib.require(plans.get(must, 0) > 0, "plan class %s never executed" % must)
        for tag, f in allfails:
            run.violation(f["desc"], {"kind": "merge-replay", "seed": run.seed, "gen": tag, "case": f["case"], "step": f["step"],
                                      "msg": f["msg"][:2000], "got": f.get("got"), "concretisation": f.get("concretisation")})

        # ---- negative controls
        vlib.require(ctl is not None, "no agreeing rebuild case available for the negative control")
        muts = []
        c1 = json.loads(json.dumps(ctl)); b = c1["steps"][0]["exp"]["dst"][0]["blocks"][0]; b["p"] = "S" if b["p"] == "D" else "D"
        muts.append(("payload origin of one block flipped", c1))
        c2 = json.loads(json.dumps(ctl)); c2["steps"][0]["exp"]["dst"][0]["blocks"].pop(); muts.append(("one block dropped", c2))
        c3 = json.loads(json.dumps(ctl)); c3["steps"][0]["exp"]["sum"]["rebuilt"] -= 1; c3["steps"][0]["exp"]["sum"]["copied"] += 1
        muts.append(("rebuilt counted as copied", c3))
        c4 = json.loads(json.dumps(ctl)); c4["steps"][0]["exp"]["sum"]["byDst"] += 1; muts.append(("conflict count + 1", c4))
        c5 = json.loads(json.dumps(ctl)); c5["steps"][1]["exp"]["dst"][0]["blocks"].pop(); muts.append(("second merge expected to change the day", c5))
        # the corrupted expectations differ from each other, so each failure is attributed by its expectation
        fails, _ = _replay(vh, [ctl] + [c for _, c in muts], run.seed, sc, "ctl")
        rejected = {json.dumps(f["case"]["steps"], sort_keys=True) for f in fails}
        vlib.require(json.dumps(ctl["steps"], sort_keys=True) not in rejected, "negative control base case does not agree")
        for name, c in muts:
            vlib.require(json.dumps(c["steps"], sort_keys=True) in rejected, "negative control: corrupted expectation (%s) was accepted" % name)
        run.cov["negative_control"] = "5 corrupted expectations rejected: " + "; ".join(n for n, _ in muts)
    run.cov["rule"] = ("distinct = distinct (source DB, destination DB, selection, overwrite, dry-run) cases; every case = 2 consecutive "
                       "MergeDatabases calls on freshly built databases; evaluations = merges executed and compared")
    run.assumptions += [
        "a day is Complete when it has a block within the tolerance of the day start and its last 5-minute block (23:55); the "
        "as-built heuristic (block duration = distance of the last two blocks) is NOT part of the documented rule - cases where it "
        "matters are labelled gap_inferred_complete",
        "source blocks and destination blocks of the same timestamp always carry different payloads",
        "the destination root directory exists before the merge (an empty directory when the destination has no data)",
        "dry run: planned copied/rebuilt/skipped are compared, conflict counters are not",
        "unknown interface requested: only 'source and destination unchanged' is judged, not whether an error is returned",
    ]
    return run.finish()


def replay(path):
    d = json.load(open(path))["replay"]
    vh = vlib.build_vh("merge")
    with vlib.Scratch("verif-c24r-") as sc:
        rc, outs, _ = vlib.run_vh(vh, ["merge-replay", "-seed", str(d["seed"]), "-tmp", sc, "-v"], stdin_lines=[json.dumps(d["case"])])
    bad = [o for o in outs if o.get("ok") is False]
    for o in bad or outs:
        o.pop("case", None)
    print(json.dumps(bad or outs, indent=1)[:8000])
    return 1 if bad else 0
