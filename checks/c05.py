"""C05 - failed I/O during a write-out never damages committed data.

M  GPStoreMC_C05: Fault enabled at every system call of the writer (incl. short writes), invariants as C04.
B  fault_enumeration on the real code: every file-system call the writer depends on is made to fail (strace
   error injection: ENOSPC, EIO, EACCES) in every session of a history; the write must report an error, the
   database must still hold exactly the committed blocks (real reader / query / listing), later write-outs
   must succeed; all validated by TLC against GPStore.
"""
import json

import vlib
from checks import store_faults as sf

MANIFEST = {
    "level": "fault_enumeration",
    "technique": "TLA+ spec GPStore (TLC exhaustive over fault points) + error injection at every file-system call of the real writer "
                 "(strace), traces and observations validated by TLC against the spec",
    "text": "Each file-system call of each write session is failed once per errno on the real writer; the reported result, the "
            "database contents seen by the real reader/query/listing and the success of later write-outs are judged by TLC "
            "against the model, which itself is explored exhaustively with faults (and short writes) at every call.",
    "note": "Faults are injected one per session (sequences of two faulty sessions in the thorough tier); short writes only in the model; "
            "strace/ptrace required.",
    "ref": "6.1 C05",
}


def main():
    run = vlib.Run("C05", "fault_enumeration")
    thorough = run.tier == "thorough"
    with vlib.Scratch("verif-c05m-") as sc:
        r = vlib.tlc("store", "GPStoreMC", "GPStoreMC_C05.cfg", coverage=True, scratch=sc, timeout=1500,
                     consts=None if thorough else "CONSTANT MaxBlocks = 2")
        vlib.expect_tlc_ok(r, "GPStoreMC_C05")
        if r.violation:
            raise vlib.MachineryError("GPStore (fault config) violates %s on the model" % r.violation)
        vlib.require(r.coverage.get("MCFault", (0, 0))[0] > 0, "vacuous: Fault never taken")
        run.add_tlc(r, "GPStoreMC_C05")
    s = run.seed
    if thorough:
        configs = [([[1], [2, 3], [4], [5]], "lz4", "m", s, ["ENOSPC", "EIO", "EACCES"]),
                   ([[1, 2], [3], [4]], "zstd", "l", s + 1, ["ENOSPC", "EIO"]),
                   ([[1], [2], [3]], "null", "m", s + 2, ["ENOSPC"])]
    else:
        configs = [([[1], [2, 3], [4]], "lz4", "m", s, ["ENOSPC"])]
    sf.run_enumeration(run, "fault", configs)
    run.cov["rule"] = ("one experiment per (history, session, file-system call the writer depends on, errno); distinct = distinct "
                       "(config, session, syscall name, ordinal, errno)")
    run.cov["exhaustive"] = True
    run.assumptions += ["one failing call per session", "errors are injected as the call's return value (the call has no effect)"]
    return run.finish()


def replay(path):
    d = json.load(open(path))
    print(json.dumps(d, indent=1)[:4000])
    return 2
