"""C26 - CSV import stores exactly the rows it reports as imported.

M  CsvImportMC: the import state machine (current time, pending blocks, written blocks, counters) explored
   exhaustively over every row sequence of bounded length for schemas with / without iface column:
   read = imported + skipped, destination = additive aggregation of the accepted rows (defined on the
   history, independent of flush timing), regression => error, written blocks never rewritten.
F  CsvImportGen: TLC enumerates every sequence of row classes up to a depth (usable rows at the current /
   next / previous time slot with first, second, IPv6 key and the same key on another interface; unusable
   rows of every kind) x schema variants (iface column or --iface, header row or --schema, column
   permutations, ignored columns).  The harness renders each as CSV text, runs the real csvimport.Import
   into a fresh goDB, reads it back through the real query engine and compares Summary and rows with the
   model.  Simulated longer behaviours are imported prefix by prefix.
"""
import json
import os
from concurrent.futures import ThreadPoolExecutor

import vlib

MANIFEST = {
    "level": "model_checking",
    "technique": "TLA+ spec CsvImport: TLC exhaustive + all TLC-generated row-class sequences x schema variants rendered "
                 "as CSV, imported by the real csvimport.Import and read back through the query engine",
    "text": "CsvImport.tla models the importer over the row stream (current timestamp, pending per interface/timestamp, written "
            "blocks, read/imported/skipped). TLC proves on the bounded model that the destination is the additive aggregation "
            "of the accepted rows, read = imported + skipped and a time regression fails. Every row-class sequence up to depth 3 x 2 "
            "(thorough: depth 4 x 4) schema variants, every unusable-row kind x 8 schema variants at depth 2 (thorough: depth 3 x the 4 other variants), and simulated sequences of 12 rows "
            "are executed on the real importer; Summary and queried rows are compared with the model state.",
    "note": "Concrete addresses, ports, protocols, interface names and the four timestamp layouts (one day, across midnight, "
            "off the 5-minute grid, days apart) are drawn from the seed; after a rejected (time-regressing) input only the "
            "error is judged, the statement is silent about what is left in the destination.",
    "ref": "6.7",
}

NPROC = min(8, max(2, (os.cpu_count() or 4) // 2))


def _sig(b):
    return json.dumps([b["schema"]["id"]] + [[s["act"]["row"][k] for k in ("kind", "ts", "iface", "key")] for s in b["steps"]])


def _replay(vh, behs, seed, prefixes, sc, tag):
    """run the harness on behs in NPROC parallel processes; returns (failures, drifts, summed summary)"""
    if not behs:
        return [], [], {"behaviours": 0, "imports": 0, "regressions": 0, "with_dup_key": 0, "rows_compared": 0, "failed": 0}
    chunks = [behs[i::NPROC] for i in range(NPROC)]
    chunks = [c for c in chunks if c]

    def one(ic):
        i, c = ic
        tmp = os.path.join(sc, "imp-%s-%d" % (tag, i))
        os.makedirs(tmp, exist_ok=True)
        args = ["csvimport-replay", "-seed", str(seed), "-tmp", tmp] + (["-prefixes"] if prefixes else [])
        rc, outs, _ = vlib.run_vh(vh, args, stdin_lines=[json.dumps(b, separators=(",", ":")) for b in c], timeout=3000,
                                  env_extra={"GOMAXPROCS": "1"})
        return outs

    with ThreadPoolExecutor(len(chunks)) as ex:
        results = list(ex.map(one, enumerate(chunks)))
    fails, drifts, tot = [], [], {}
    for c, outs in zip(chunks, results):
        summ = [o for o in outs if o.get("summary")]
        vlib.require(summ and summ[0]["behaviours"] == len(c), "csvimport-replay did not process all behaviours (%s)" % tag)
        for k, v in summ[0].items():
            if isinstance(v, int) and not isinstance(v, bool):
                tot[k] = tot.get(k, 0) + v
        fails += [o for o in outs if o.get("ok") is False]
        drifts += [o for o in outs if o.get("drift")]
    key = lambda o: json.dumps([o.get("desc"), _sig(o["behaviour"]), o.get("step")], sort_keys=True)
    return sorted(fails, key=key), sorted(drifts, key=key), tot


def main():
    run = vlib.Run("C26", "model_checking")
    thorough = run.tier == "thorough"
    vh = vlib.build_vh("csvimport")
    with vlib.Scratch("verif-c26-") as sc:
        # ---- M (the design) and the behaviour generators: independent TLC runs, started together
        mcs = [("CsvImportMC(read<=3, 2 counter tuples)", "MaxRead = 3", False)]
        if thorough:
            mcs.append(("CsvImportMC(read<=5, 1 counter tuple)", "MaxRead = 5", True))
        jobs = []
        for label, mr, one_val in mcs:
            cfg = open(os.path.join(vlib.SPEC, "csvimport", "CsvImportMC.cfg")).read()
            if one_val:
                cfg = cfg.replace("Candidates <- MCCandidates", "Candidates <- MCCandidates1")
            cfg = cfg.replace("MaxRead = 4", mr)
            jobs.append(lambda cfg=cfg: vlib.tlc("csvimport", "CsvImportMC", {"cfg_text": cfg}, coverage=True, timeout=1500, workers=6))
        gcfg = open(os.path.join(vlib.SPEC, "csvimport", "CsvImportGen.cfg")).read()
        gcfg = gcfg.replace("Depth = 3", "Depth = %d" % (4 if thorough else 3))
        if not thorough:
            gcfg = gcfg.replace("Schemas <- GenSchemas4", "Schemas <- GenSchemas2")
        jobs.append(lambda: vlib.tlc("csvimport", "CsvImportGen", {"cfg_text": gcfg}, timeout=1200, workers=4))
        kcfg = open(os.path.join(vlib.SPEC, "csvimport", "CsvImportGenKinds.cfg")).read()
        if thorough:
            kcfg = kcfg.replace("Depth = 2", "Depth = 3").replace("Schemas <- GenSchemas8", "Schemas <- GenSchemas4b")
        jobs.append(lambda: vlib.tlc("csvimport", "CsvImportGen", {"cfg_text": kcfg}, timeout=1200, workers=4))
        nsim = 1500 if thorough else 150
        jobs.append(lambda: vlib.tlc("csvimport", "CsvImportGen", "CsvImportGenSim.cfg", workers=1, simulate=nsim, depth=30,
                                     seed=run.seed, timeout=1200))
        with ThreadPoolExecutor(len(jobs)) as ex:
            res = [f.result() for f in [ex.submit(j) for j in jobs]]
        for (label, _, _), r in zip(mcs, res):
            vlib.expect_tlc_ok(r, label)
            if r.violation:
                raise vlib.MachineryError("CsvImport design violates %s (spec error, not a code verdict)" % r.violation)
            for a in ("Skip", "Regress", "Accept", "Eof"):
                vlib.require(r.coverage.get(a, (0, 0))[0] > 0, "vacuous: action %s never taken" % a)
            run.add_tlc(r, label)

        # ---- F: generated behaviours
        gens = []  # (label, behaviours, prefixes)
        g, g2, g3 = res[len(mcs):]
        vlib.expect_tlc_ok(g, "CsvImportGen")
        vlib.require(len(g.traces) > 3000, "generator produced too few behaviours (%d)" % len(g.traces))
        run.add_tlc(g, "CsvImportGen(depth %d, %d schemas)" % ((4, 4) if thorough else (3, 2)))
        gens.append(("classes", g.traces, False))
        vlib.expect_tlc_ok(g2, "CsvImportGenKinds")
        vlib.require(len(g2.traces) > 3000, "kinds generator produced too few behaviours (%d)" % len(g2.traces))
        run.add_tlc(g2, "CsvImportGenKinds(all unusable-row kinds; %s)" % ("depth 3, the 4 other schemas" if thorough else "depth 2, 8 schemas"))
        gens.append(("kinds", g2.traces, False))
        vlib.expect_tlc_ok(g3, "CsvImportGenSim")
        vlib.require(len(g3.traces) >= nsim // 2, "simulation produced too few behaviours (%d)" % len(g3.traces))
        gens.append(("sim", g3.traces, True))

        kinds_seen, schemas_seen = set(), set()
        allfails = []
        first_ok = None
        for tag, behs, prefixes in gens:
            behs = sorted(behs, key=_sig)
            fails, drifts, tot = _replay(vh, behs, run.seed, prefixes, sc, tag)
            run.count(tot["imports"])
            run.cov["traces_validated_against_impl"] += len(behs)
            run.cov.setdefault("replay", {})[tag] = tot
            for b in behs:
                run.distinct(_sig(b))
                schemas_seen.add(b["schema"]["id"])
                for s in b["steps"]:
                    kinds_seen.add(s["act"]["row"]["kind"] if s["act"]["name"] != "Regress" else "regress")
            if first_ok is None:
                bad = {_sig(f["behaviour"]) for f in fails}
                cands = [b for b in behs if len(b["steps"]) >= 2 and len(b["steps"][-1]["exp"]["store"]) >= 2
                         and not b["steps"][-1]["exp"]["err"] and _sig(b) not in bad]
                first_ok = cands[len(cands) // 2] if cands else None
            run.sample({"kind": "forward replay (%s)" % tag, "schema": behs[len(behs) // 2]["schema"]["id"],
                        "rows": [[s["act"]["name"], s["act"]["row"]["kind"], s["act"]["row"]["ts"], s["act"]["row"]["iface"],
                                  s["act"]["row"]["key"]] for s in behs[len(behs) // 2]["steps"]]})
            for d in drifts:
                run.drift.append({"desc": d["desc"], "msg": d["msg"]})
            for f in fails:
                allfails.append((tag, prefixes, f))
        lost = sum(t.get("rejected_with_imported_rows_not_stored", 0) for t in run.cov.get("replay", {}).values())
        if lost:
            run.note("not judged: in %d rejected imports (time going backwards) the rows of the current timestamp had been counted "
                     "as imported but were never written to the destination (the statement is silent about rejected input)" % lost)
        run.cov["row_kinds_exercised"] = sorted(kinds_seen)
        run.cov["schemas_exercised"] = sorted(schemas_seen)
        for must in ("ok", "regress", "short", "zerotime", "badsip", "mixedfam", "slashiface"):
            vlib.require(must in kinds_seen, "row class %s never generated" % must)
        for tag, prefixes, f in allfails:
            run.violation(f["desc"], {"kind": "csvimport-replay", "seed": run.seed, "prefixes": prefixes, "gen": tag,
                                      "behaviour": f["behaviour"], "step": f["step"], "msg": f["msg"][:2000], "got": f.get("got")})

        # ---- negative controls: a corrupted expectation must be rejected by the replay
        vlib.require(first_ok is not None, "no agreeing behaviour available for the negative control")
        ctl = []
        b1 = json.loads(json.dumps(first_ok)); b1["steps"][-1]["exp"]["store"][0]["c"][0] += 1; ctl.append(("counter+1", b1))
        b2 = json.loads(json.dumps(first_ok)); b2["steps"][-1]["exp"]["imported"] += 1; b2["steps"][-1]["exp"]["skipped"] -= 1
        ctl.append(("imported+1", b2))
        b3 = json.loads(json.dumps(first_ok)); b3["steps"][-1]["exp"]["store"] = b3["steps"][-1]["exp"]["store"][1:]
        ctl.append(("row dropped", b3))
        b4 = json.loads(json.dumps(first_ok)); b4["steps"][-1]["exp"]["err"] = True; ctl.append(("expects rejection", b4))
        fails, _, _ = _replay(vh, [first_ok] + [b for _, b in ctl], run.seed, False, sc, "ctl")
        rejected = {json.dumps(f["behaviour"]["steps"], sort_keys=True) for f in fails}
        vlib.require(json.dumps(first_ok["steps"], sort_keys=True) not in rejected, "negative control base case does not agree")
        for name, b in ctl:
            vlib.require(json.dumps(b["steps"], sort_keys=True) in rejected,
                         "negative control: corrupted expectation (%s) was accepted" % name)
        run.cov["negative_control"] = "4 corrupted expectations (counter+1, imported+1, row dropped, rejection expected) rejected"
    run.cov["rule"] = ("distinct = distinct (schema variant, row-class sequence) pairs executed on the real importer; "
                       "evaluations = Import calls each followed by a full read-back of the destination")
    run.assumptions += [
        "usable rows: time slot relative to the current one (same / next / previous), key in {v4, second v4, v6}, interface in "
        "{a, b}; counters rotate over 3 tuples; concrete values are drawn from the seed",
        "unusable rows are rendered at the current time so that their time cannot matter",
        "after a rejected input (time going backwards) only the returned error is judged",
        "Summary.BlocksWritten / Interfaces are compared but only reported as drift (the statement names read/imported/skipped)",
    ]
    return run.finish()


def replay(path):
    d = json.load(open(path))["replay"]
    vh = vlib.build_vh("csvimport")
    with vlib.Scratch("verif-c26r-") as sc:
        args = ["csvimport-replay", "-seed", str(d["seed"]), "-tmp", sc, "-v"] + (["-prefixes"] if d.get("prefixes") else [])
        rc, outs, _ = vlib.run_vh(vh, args, stdin_lines=[json.dumps(d["behaviour"])])
    bad = [o for o in outs if o.get("ok") is False]
    for o in bad or outs:
        o.pop("behaviour", None)
    print(json.dumps(bad or outs, indent=1)[:6000])
    return 1 if bad else 0
