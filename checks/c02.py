"""C02 - databases are interchangeable between cgo and native compression builds.

M  InterchangeMC: all sequences of <= 3 write-outs (writer build x encoder x block class); every build reads back exactly
   what was written (Interchangeable, SameFlows, AppendOnly); the appending zstd design must violate Interchangeable.
F  InterchangeGen: every sequence of two write-outs (thorough: four builds; plus simulated longer ones) is executed with
   one harness binary PER BUILD CONFIGURATION: step k of a behaviour is performed by the binary of its writer build
   (goDB.DBWriter.Write of a generated flow map, and gpfile.GPDir.WriteBlocks of arbitrary column bytes), and after every
   step EVERY build opens the day and reads everything back - column bytes and metadata through the GPDir reader, raw rows
   through the query engine. The specification says what each build must see; in addition all digests of what was read
   back from the same input must agree whichever builds wrote and read it.
"""
import glob
import json
import os
import random
import shutil

import vlib
from checks import c07

MANIFEST = {
    "level": "exploration",
    "technique": "TLA+ spec Interchange: TLC exhaustive over write-out sequences x writer build x encoder x block class + every "
                 "generated sequence executed by one harness binary per build configuration, each day read back by every build",
    "text": "Interchange.tla makes the build configuration an argument on which nothing observable depends. TLC enumerates all "
            "sequences of write-outs (writer build x encoder x block class); each is executed with real goDB write-outs by the "
            "binary of the writer build and, after every write-out, read back (block bytes, metadata, raw query rows) by the "
            "binaries of all builds; expected views come from the specification and all read-back digests of the same input must "
            "agree.",
    "note": "Builds: cgo, CGO_ENABLED=0 (quick); plus goprobe_noliblz4, goprobe_nolibzstd (thorough). Flow contents and raw column "
            "bytes are seeded samples of three block classes (few flows / some hundred / several thousand); levels sampled from "
            "{default, 1, max}.",
    "ref": "6.1 C02",
}

BATCH = 800
JOBS_PER_PROC = 12


def chunks(xs, n):
    return [xs[i:i + n] for i in range(0, len(xs), n)]


def run_jobs(vh, cmd, jobs):
    rc, outs, err = vlib.run_vh(vh, [cmd], stdin_lines=[json.dumps(j, separators=(",", ":")) for j in jobs], timeout=1500,
                                check=False, env_extra={"GOMAXPROCS": "1"})
    if rc != 0:
        if c07.crashed(rc, err):
            return None, err
        raise vlib.MachineryError("harness %s failed rc=%s\nstderr: %s" % (cmd, rc, err[-3000:]))
    return outs, err


def data_seed(seed, idx):
    """Block contents depend on (data seed, block id, class). Behaviours share five data seeds, so that the same input is
    written by different builds / encoders in different behaviours and the read-back digests can be compared across writers."""
    return seed * 100003 + idx % 5


def pick_level(seed, idx, k, a, thorough):
    """Compression level of a write-out (0 = the writer's default), drawn from the seed. The pure-Go zstd maps levels onto
    four encoders (<3, 3..5, 6..9, >=10); its two largest ones need seconds of CPU per write-out of sorted flow columns, so
    they are drawn rarely (the largest only in the thorough tier)."""
    rng = random.Random(seed * 1000003 + idx * 31 + k)
    if a["e"] == "zstd" and impl_of(a["b"], "zstd") == "native":
        return rng.choice([1, 1, 1, 3, 0, 19] if thorough else [1, 1, 1, 1, 3, 0])
    return rng.choice([0, 0, 1, {"lz4": 12, "zstd": 19, "null": 0}[a["e"]]])


def impl_of(build, enc):
    return c07.BUILDS[build][enc] if enc in ("lz4", "zstd") else "go"


def main():
    run = vlib.Run("C02", "exploration")
    thorough = run.tier == "thorough"
    bnames = ["cgo", "nocgo"] + (["noliblz4", "nolibzstd"] if thorough else [])
    ph = c07.Phases(run)
    vhs = {b: c07.build(b) for b in bnames}
    ph.mark("build")
    with vlib.Scratch("verif-c02-") as sc:
        # ---- M
        r = vlib.tlc("codec", "InterchangeMC", "InterchangeMC.cfg", coverage=True, scratch=sc, timeout=900,
                     consts=None if thorough else "CONSTANT Builds <- MCBuilds2")
        vlib.expect_tlc_ok(r, "InterchangeMC")
        if r.violation:
            raise vlib.MachineryError("Interchange design violates %s (specification error, not a verdict)" % r.violation)
        vlib.require(r.coverage.get("WriteOut", (0, 0))[0] > 0, "vacuous: WriteOut never taken")
        run.add_tlc(r, "InterchangeMC %d builds x 3 encoders x 3 classes, 3 blocks" % (4 if thorough else 2))
        n = vlib.tlc("codec", "InterchangeMC", "InterchangeMCNeg.cfg", scratch=sc, timeout=300)
        vlib.require(n.violation == "Interchangeable", "negative control: the appending zstd design was not rejected by the model (%s)"
                     % (n.violation or n.error))
        run.cov["negative_control_model"] = "AppendBuilds={nocgo,nolibzstd} violates Interchangeable"

        ph.mark("M")
        # ---- F: behaviours
        g = vlib.tlc("codec", "InterchangeGen", "InterchangeGen4.cfg" if thorough else "InterchangeGen2.cfg", scratch=sc, timeout=900)
        vlib.expect_tlc_ok(g, "InterchangeGen")
        vlib.require(len(g.traces) >= (1296 if thorough else 324), "generator produced too few behaviours: %d" % len(g.traces))
        run.add_tlc(g, "InterchangeGen depth 2")
        behs = [json.loads(x) for x in c07.canon(g.traces)]
        nsim, dsim = (160, 4) if thorough else (32, 3)
        g2 = vlib.tlc("codec", "InterchangeGen", "InterchangeGen4.cfg" if thorough else "InterchangeGen2.cfg", scratch=sc, timeout=900,
                      workers=4, simulate=nsim // 4, depth=dsim + 4, seed=run.seed, consts="CONSTANT Depth = %d" % dsim)
        vlib.expect_tlc_ok(g2, "InterchangeGenSim")
        vlib.require(len(g2.traces) >= nsim // 2, "simulation produced too few behaviours")
        behs += [json.loads(x) for x in c07.canon(g2.traces)]
        # every behaviour with real goDB write-outs of flows; arbitrary column bytes ("raw") for all (thorough) / every third (quick)
        items = []
        for i, b in enumerate(behs):
            items.append((i, "flows", b))
            if thorough or (i + run.seed) % 3 == 0:
                items.append((i, "raw", b))
        run.cov["behaviours"] = len(behs)
        run.cov["behaviour_runs"] = len(items)
        for b in behs:
            run.distinct(json.dumps([[s["act"]["b"], s["act"]["e"], s["act"]["c"]] for s in b]))
        run.sample({"kind": "forward replay behaviour", "steps": [s["act"] for s in behs[len(behs) // 2]]})

        ph.mark("F generate")
        fails = {}        # descriptor -> [count, descriptor, replay]
        digests = {}      # (mode, classes) -> {digest: example}
        stats = {"writes": 0, "observations": 0, "block_observations": 0, "blocks_by_stored_encoder": {}}
        pair_counts = {}  # (writer build, reader build) -> blocks read back
        healthy = None

        def fail(desc, rep):
            k = json.dumps(desc, sort_keys=True)
            e = fails.setdefault(k, [0, desc, rep])
            e[0] += 1

        for batch in chunks(items, BATCH):
            root = os.path.join(sc, "ix")
            shutil.rmtree(root, ignore_errors=True)
            live = {}
            for (i, mode, b) in batch:
                live[(i, mode)] = {"beh": b, "db": os.path.join(root, mode, "b%05d" % i), "idx": i, "mode": mode}
            depth = max(len(b) for (_, _, b) in batch)
            for k in range(depth):
                # ---- write-outs of step k, grouped by writer build
                by_build = {}
                for key, st in live.items():
                    if k >= len(st["beh"]):
                        continue
                    a = st["beh"][k]["act"]
                    level = pick_level(run.seed, st["idx"], k, a, thorough)
                    by_build.setdefault(a["b"], []).append({"db": st["db"], "id": a["id"], "enc": a["e"], "level": level, "cls": a["c"],
                                                            "seed": data_seed(run.seed, st["idx"]), "mode": st["mode"],
                                                            "beh": st["idx"]})
                wtasks = [(b, ch) for b, jobs in by_build.items() for ch in chunks(jobs, JOBS_PER_PROC)]
                wres = c07.parallel(lambda b, ch: (b, ch, run_jobs(vhs[b], "codec-ix-write", ch)), wtasks)
                ph.mark("F round %d write-outs (%d processes)" % (k + 1, len(wtasks)))
                dead = set()
                for b, ch, (outs, err) in wres:
                    stats["writes"] += len(ch)
                    if outs is None:
                        # a crash of the writer process: attribute to the build, all jobs of the chunk are undecided
                        fail({"binding": "F", "op": "WriteOut", "field": "crash", "writer_build": b},
                             {"kind": "ix", "stderr": err[:1500], "jobs": ch[:3]})
                        dead.update((j["beh"], j["mode"]) for j in ch)
                        continue
                    for o in outs:
                        if o.get("ok") is False:
                            j = next(j for j in ch if j["beh"] == o["beh"])
                            fail({"binding": "F", "op": "WriteOut", "field": "error", "enc": j["enc"], "writer_impl": impl_of(b, j["enc"]),
                                  "cls": j["cls"], "mode": j["mode"]},
                                 {"kind": "ix", "msg": o.get("msg"), "job": j, "behaviour": live[(j["beh"], j["mode"])]["beh"]})
                            dead.add((j["beh"], j["mode"]))
                for key in dead:
                    live.pop(key, None)
                # ---- every build reads every day back
                ojobs = []
                for key, st in live.items():
                    if k >= len(st["beh"]):
                        continue
                    ojobs.append({"db": st["db"], "blocks": [s["act"]["c"] for s in st["beh"][:k + 1]], "seed": data_seed(run.seed, st["idx"]),
                                  "mode": st["mode"], "beh": st["idx"]})
                otasks = [(rb, ch) for rb in bnames for ch in chunks(ojobs, JOBS_PER_PROC)]
                ores = c07.parallel(lambda rb, ch: (rb, ch, run_jobs(vhs[rb], "codec-ix-observe", ch)), otasks)
                ph.mark("F round %d read-backs (%d processes)" % (k + 1, len(otasks)))
                seen = {}     # (beh, mode) -> {reader: result}
                for rb, ch, (outs, err) in ores:
                    if outs is None:
                        fail({"binding": "F", "op": "Observe", "field": "crash", "reader_build": rb}, {"kind": "ix", "stderr": err[:1500], "jobs": ch[:3]})
                        continue
                    res = [o for o in outs if not o.get("summary")]
                    vlib.require(len(res) == len(ch), "codec-ix-observe did not answer every job")
                    for j, o in zip(ch, res):
                        seen.setdefault((j["beh"], j["mode"]), {})[rb] = o
                dead = set()
                for key, per_reader in seen.items():
                    st = live[key]
                    exp = st["beh"][k]["exp"]
                    acts = [s["act"] for s in st["beh"][:k + 1]]
                    bad = {}      # block index -> [reader builds that do not see it as specified]
                    for rb, o in per_reader.items():
                        stats["observations"] += 1
                        stats["block_observations"] += len(o["view"])
                        run.count(len(o["view"]))
                        want = exp["views"][rb]
                        for bi in range(max(len(want), len(o["view"]))):
                            g_ = o["view"][bi] if bi < len(o["view"]) else "missing"
                            w_ = want[bi] if bi < len(want) else "none"
                            if bi < len(acts):
                                pc = (acts[bi]["b"], rb)
                                pair_counts[pc] = pair_counts.get(pc, 0) + 1
                            if g_ != w_:
                                bad.setdefault(bi, []).append(rb)
                        if o["n"] != exp["n"]:
                            bad.setdefault(min(o["n"], exp["n"]), []).append(rb)
                        for blk in o.get("stored", []):
                            for e_ in blk:
                                stats["blocks_by_stored_encoder"][e_] = stats["blocks_by_stored_encoder"].get(e_, 0) + 1
                    if bad:
                        bi = min(bad)
                        a = acts[min(bi, len(acts) - 1)]
                        readers = sorted(set(bad[bi]))
                        desc = {"binding": "F", "op": "ReadBack", "field": "view", "enc": a["e"], "writer_impl": impl_of(a["b"], a["e"]),
                                "cls": a["c"], "mode": st["mode"],
                                "readers": "all" if len(readers) == len(bnames) else ",".join(readers)}
                        fail(desc, {"kind": "ix", "behaviour": st["beh"], "step": k, "block": bi + 1, "writer_build": a["b"],
                                    "seed": run.seed, "thorough": thorough, "index": st["idx"], "mode": st["mode"],
                                    "observed": {rb: {"view": o["view"], "detail": o["detail"], "stored": o["stored"]}
                                                 for rb, o in per_reader.items()}})
                        dead.add(key)
                        continue
                    # same input => same flows, whoever wrote and whoever reads
                    dk = (st["mode"], tuple(a["c"] for a in acts), data_seed(run.seed, st["idx"]))
                    for rb, o in per_reader.items():
                        digests.setdefault(dk, {}).setdefault(o["digest"], (st["idx"], rb))
                    if len(digests[dk]) > 1:
                        fail({"binding": "F", "op": "ReadBack", "field": "digest", "mode": st["mode"]},
                             {"kind": "ix", "behaviour": st["beh"], "step": k, "digests": {d: list(v) for d, v in digests[dk].items()}})
                        dead.add(key)
                    if healthy is None and st["mode"] == "flows" and k == len(st["beh"]) - 1 and any(a["c"] == "big" for a in acts):
                        healthy = (st, [a["c"] for a in acts])
                        keep = os.path.join(sc, "keep")
                        shutil.copytree(st["db"], keep)
                for key in dead:
                    live.pop(key, None)
                run.cov["traces_validated_against_impl"] += sum(1 for key, st in live.items() if k == len(st["beh"]) - 1)
            shutil.rmtree(root, ignore_errors=True)

        run.cov["digest_groups_same_input"] = len(digests)
        run.cov["write_outs"] = stats["writes"]
        run.cov["observations"] = stats["observations"]
        run.cov["block_read_backs"] = stats["block_observations"]
        run.cov["column_blocks_by_stored_encoder"] = stats["blocks_by_stored_encoder"]
        run.cov["block_read_backs_by_writer_reader_pair"] = {"%s->%s" % k: v for k, v in sorted(pair_counts.items())}
        vlib.require(all(pair_counts.get((w, r_), 0) > 0 for w in bnames for r_ in bnames), "not every ordered pair of builds was exercised")
        for key, (cnt, d, rep) in sorted(fails.items()):
            rep["occurrences"] = cnt
            run.violation(d, rep)

        # ---- negative control: a damaged column file must not be reported as read back unchanged
        if healthy is not None:
            st, classes = healthy
            keep = os.path.join(sc, "keep")
            files = sorted(glob.glob(os.path.join(keep, "*", "*", "*", "*", "*.gpf")), key=os.path.getsize)
            vlib.require(files, "negative control: no column files found")
            victim = files[-1]
            with open(victim, "r+b") as fh:
                size = os.path.getsize(victim)
                fh.seek(size // 2)
                chunk = fh.read(64)
                fh.seek(size // 2)
                fh.write(bytes((x ^ 0x5A) for x in chunk))
            outs, _ = run_jobs(vhs["cgo"], "codec-ix-observe", [{"db": keep, "blocks": classes, "seed": data_seed(run.seed, st["idx"]),
                                                                 "mode": "flows", "beh": st["idx"]}])
            vlib.require(outs and "unreadable" in outs[0]["view"], "negative control: a corrupted column file was read back as unchanged")
            run.cov["negative_control"] = "64 flipped bytes in %s detected by the read-back comparison" % os.path.basename(victim)
        else:
            run.note("negative control skipped: no behaviour with a big block was read back unchanged")

    run.cov["rule"] = ("every sequence of 2 write-outs over writer build (%d) x encoder (3) x block class (3), plus simulated sequences of "
                       "%d; after every write-out all %d builds read back; distinct = distinct (build, encoder, class) sequences; "
                       "evaluations = blocks read back and compared" % (len(bnames), dsim, len(bnames)))
    run.assumptions += ["flows / raw column bytes of a block class are seeded samples; 'big' blocks hold 6000-8000 flows so that a "
                        "compressible column exceeds its compressed size by more than GPFile's 8 KiB scratch slice",
                        "levels are sampled from {default, 1, max} per write-out (pure-Go zstd: from its four level classes, the slowest rarely)",
                        "expected column bytes of a flow block are computed by harness/internal/codec.Columns from exported goProbe "
                        "pieces (a divergence there would fail same-build pairs too)",
                        "quick tier: builds cgo and CGO_ENABLED=0 only (4 ordered pairs); thorough: all 16 pairs"]
    return run.finish()


def replay(path):
    d = json.load(open(path))["replay"]
    if d.get("kind") != "ix" or "behaviour" not in d or "index" not in d:
        print(json.dumps(d, indent=1)[:3000])
        return 2
    beh, mode, idx, seed = d["behaviour"], d["mode"], d["index"], d["seed"]
    builds = sorted(set(s["act"]["b"] for s in beh) | set(beh[0]["exp"]["views"].keys()))
    vhs = {b: c07.build(b) for b in builds}
    bad = 0
    with vlib.Scratch("verif-c02r-") as sc:
        db = os.path.join(sc, "db")
        for k, s in enumerate(beh):
            a = s["act"]
            level = pick_level(seed, idx, k, a, d.get("thorough", False))
            run_jobs(vhs[a["b"]], "codec-ix-write", [{"db": db, "id": a["id"], "enc": a["e"], "level": level, "cls": a["c"],
                                                      "seed": data_seed(seed, idx), "mode": mode, "beh": idx}])
            for rb in sorted(s["exp"]["views"].keys()):
                outs, _ = run_jobs(vhs[rb], "codec-ix-observe", [{"db": db, "blocks": [x["act"]["c"] for x in beh[:k + 1]],
                                                                  "seed": data_seed(seed, idx), "mode": mode, "beh": idx}])
                o = outs[0]
                ok = o["view"] == s["exp"]["views"][rb]
                bad += 0 if ok else 1
                print("step %d written by %s (%s, %s): read by %-9s -> %s %s" % (k + 1, a["b"], a["e"], a["c"], rb, o["view"],
                                                                                  "" if ok else "MISMATCH " + "; ".join(o["detail"][:2])))
    return 1 if bad else 0
