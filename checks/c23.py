"""C23 - the local packet buffer is a bounded FIFO that preserves every field.

M  LocalBufferMC: the design of pkg/capture/buffer.go (fits / grows once to min(limit, 2*cap) / refuses,
   Next pops the head and frees nothing, Reset, pool recycle) explored exhaustively in scaled units for all
   operation sequences to a depth, limits incl. one below the initial size and one whose growth is smaller
   than a record; FIFO, field preservation, "refused only at the limit", "refused leaves everything
   unchanged", boundedness checked by TLC; every sub-case must be covered; a negative control (a design
   that refuses without trying to grow) must be rejected.
F  LocalBufferGen (real bytes: 21/45-byte records, 4096-byte initial slice, limits 4096/6000/8192/100/4100,
   thorough also 16384/12288/8193):
   all operation sequences of a depth on an empty buffer with extreme field values, all Add/Next sequences
   of a depth starting from every fill that ends within 70 bytes below a boundary, and simulated long
   behaviours with refills - each executed on capture.LocalBuffer through the LocalBufferPool path; return
   values and the complete buffer content are compared with the specification after every step.
B  LocalBufferTrace: seeded long runs of the real buffer (14 limits, random extreme field values, growth
   with a partly read buffer) are logged and judged by TLC against the specification.
"""
import concurrent.futures
import json
import os
import subprocess

import vlib

MANIFEST = {
    "level": "model_checking",
    "technique": "TLA+ spec LocalBuffer: TLC exhaustive (scaled units) + TLC-generated behaviours in real bytes replayed on "
                 "capture.LocalBuffer/LocalBufferPool with per-step full-content comparison + TLC trace validation of seeded long runs",
    "text": "LocalBuffer.tla states the byte-exact rule (record = key+8 bytes; fits iff used+record <= len; grow once to "
            "min(limit, 2*len); refuse iff the record does not fit into the largest slice the limit allows) and TLC proves FIFO, "
            "field preservation, refused-only-at-limit and refused-unchanged for all op sequences to depth 8 (12 thorough); every "
            "TLC behaviour of LocalBufferGen (exhaustive near every size boundary, extreme field values, simulated refills) is "
            "executed on the real buffer with Next results and full content compared after each step; long seeded implementation "
            "traces are accepted by TLC only if every Next returns the model's head unaltered and every refusal happens at the limit.",
    "note": "Accepting an item where the design refuses is outside the statement and only counted as drift. Keys are concretised "
            "from key ids by the harness (incl. all-0x00/0xFF/0x01 keys); the content projection drains a copy of the LocalBuffer "
            "struct with the buffer's own Next; slice length / write position are read by reflection for drift accounting only.",
    "ref": "6.6",
}

FIELD_ORDER = ["fam", "key", "type", "aux", "errno", "size"]
MC_ACTIONS = ("DoAddFit", "DoAddGrow", "DoAddRefuse", "DoNext", "DoNextEmpty", "DoReset", "DoRecycle")


def _traces(r):
    """Behaviours printed by TLC as <<"TRACE", "json">> -> list of JSON texts (TLC's string literal is a JSON string)."""
    out = []
    for line in r.stdout.splitlines():
        if line.startswith('<<"TRACE", "') and line.endswith('">>'):
            out.append(json.loads(line[10:-2]))
    return out


def _sub(sc, name):
    d = os.path.join(sc, name)
    os.makedirs(d, exist_ok=True)
    return d


def _gen_job(sc, cfg, label, consts=None, **kw):
    kw.setdefault("workers", 4)
    return vlib.tlc("localbuf", "LocalBufferGen", cfg, scratch=_sub(sc, label), want_traces=False, consts=consts, heap="4g", **kw)


def _gen(run, r, label, simulate=False):
    kw = {"simulate": simulate}
    vlib.expect_tlc_ok(r, label)
    if r.violation:
        raise vlib.MachineryError("%s: generator reports %s" % (label, r.violation))
    run.add_tlc(r, label)
    vlib.require(r.infos and isinstance(r.infos[0], dict) and "v4" in r.infos[0], "%s: fill table not printed" % label)
    # BFS with several workers prints in a run-dependent order: sort so that everything downstream is deterministic
    return (_traces(r) if kw.get("simulate") else sorted(_traces(r))), r.infos[0]


def _replay(vh, seed, fills_path, lines):
    rc, outs, _ = vlib.run_vh(vh, ["localbuf-replay", "-seed", str(seed), "-fills", fills_path], stdin_lines=lines, timeout=1800)
    summ = [o for o in outs if o.get("summary")]
    vlib.require(summ and summ[0]["behaviours"] == len(lines), "replay did not process all behaviours")
    return summ[0], [o for o in outs if o.get("ok") is False]


def _label(a):
    n = a["name"]
    if n == "Add":
        return "Add%d:%s" % (a["item"]["fam"], a["how"])
    if n == "Next":
        return "Next:%s" % ("item" if a["ok"] else "empty")
    if n == "Fill":
        return "Fill:%s/%d" % (a["pat"], a["n"])
    if n == "New":
        return "New:%d" % a["limit"]
    return n


def _needed_fills(beh, fills):
    need = {}
    for st in beh:
        a = st["act"]
        if a["name"] == "Fill":
            need[a["pat"]] = fills[a["pat"]][:max(a["n"], len(need.get(a["pat"], [])))]
    return need


def main():
    run = vlib.Run("C23", "model_checking")
    thorough = run.tier == "thorough"
    vh = vlib.build_vh("localbuf")
    with vlib.Scratch("verif-c23-") as sc:
        # the TLC jobs (and the driver + trace validation) are independent of each other: run them side by side
        traces, ops = (14, 15000) if thorough else (3, 10000)
        tfile = os.path.join(sc, "trace.ndjson")

        def trace_job():
            with open(tfile, "w") as fh:
                p = subprocess.run([vh, "localbuf-drive", "-seed", str(run.seed), "-traces", str(traces), "-ops", str(ops)],
                                   stdout=fh, stderr=subprocess.PIPE, text=True)
            if p.returncode != 0:
                raise vlib.MachineryError("localbuf-drive failed: " + p.stderr[-2000:])
            return vlib.tlc("localbuf", "LocalBufferTrace", "LocalBufferTrace.cfg", workers=1, files={"trace.ndjson": tfile},
                            scratch=_sub(sc, "trace"), timeout=3000, heap="8g")

        nsim = 150 if thorough else 12
        jobs = {
            "mc": lambda: vlib.tlc("localbuf", "LocalBufferMC", "LocalBufferMC.cfg", coverage=True, scratch=_sub(sc, "mc"),
                                   timeout=900, workers=4, heap="4g", consts="CONSTANT MaxDepth = %d" % (12 if thorough else 8)),
            "small": lambda: _gen_job(sc, "LocalBufferGenSmall.cfg", "GenSmall", timeout=900,
                                      consts="CONSTANT Depth = %d" % (6 if thorough else 5)),
            "edge": lambda: _gen_job(sc, "LocalBufferGenEdge.cfg", "GenEdge", timeout=1200,
                                     consts="CONSTANT Depth = %d" % (6 if thorough else 4)),
            "sim": lambda: _gen_job(sc, "LocalBufferGenSim.cfg", "GenSim", timeout=1200, workers=1, simulate=nsim, depth=45,
                                    seed=run.seed),
            "trace": trace_job,
        }
        if thorough:   # (quick relies on the two binding-level negative controls below)
            jobs["mcneg"] = lambda: vlib.tlc("localbuf", "LocalBufferMC", "LocalBufferMCNeg.cfg", scratch=_sub(sc, "mcneg"),
                                             timeout=600, workers=2, heap="2g")
            jobs["big"] = lambda: _gen_job(sc, "LocalBufferGenEdgeBig.cfg", "GenEdgeBig", timeout=1200)
        with concurrent.futures.ThreadPoolExecutor(max_workers=len(jobs)) as ex:
            futs = {k: ex.submit(f) for k, f in jobs.items()}
            res = {k: f.result() for k, f in futs.items()}

        # ------------------------------------------------------------------ M
        r = res["mc"]
        vlib.expect_tlc_ok(r, "LocalBufferMC")
        if r.violation:
            raise vlib.MachineryError("LocalBuffer design violates %s (spec error, not a code verdict)\n%s"
                                      % (r.violation, "\n".join(r.cex[:60])))
        for a in MC_ACTIONS:
            vlib.require(r.coverage.get(a, (0, 0))[0] > 0, "vacuous: action %s never taken" % a)
        vlib.require(r.coverage.get("DoNew", (0, 0))[1] > 0, "vacuous: New never taken")
        run.add_tlc(r, "LocalBufferMC")
        run.cov["mc_coverage"] = {a: r.coverage[a][0] for a in MC_ACTIONS}
        if thorough:
            n = res["mcneg"]
            vlib.require(n.violation == "RefusedOnlyAtLimit",
                         "negative control: a design refusing without growing was not rejected (%s %s)" % (n.violation, n.error))
            run.cov["negative_control_model"] = "design that refuses without growing violates RefusedOnlyAtLimit"

        # ------------------------------------------------------------------ F
        behs = []
        small, fills = _gen(run, res["small"], "GenSmall")
        vlib.require(len(small) >= 16807, "GenSmall produced too few behaviours (%d)" % len(small))
        behs += small
        edge, _ = _gen(run, res["edge"], "GenEdge")
        vlib.require(len(edge) > 1000, "GenEdge produced too few behaviours (%d)" % len(edge))
        behs += edge
        if thorough:
            big, _ = _gen(run, res["big"], "GenEdgeBig")
            vlib.require(len(big) > 1000, "GenEdgeBig produced too few behaviours (%d)" % len(big))
            behs += big
        sim, _ = _gen(run, res["sim"], "GenSim", simulate=True)
        vlib.require(len(sim) >= nsim, "GenSim produced too few behaviours (%d)" % len(sim))
        behs += sim
        fills_path = os.path.join(sc, "fills.json")
        with open(fills_path, "w") as fh:
            json.dump(fills, fh)
        summ, fails = _replay(vh, run.seed, fills_path, behs)
        run.count(summ["steps"])
        run.cov["traces_validated_against_impl"] += len(behs)
        run.cov["replay"] = {k: summ[k] for k in summ if k not in ("summary",)}
        how = {"fit": 0, "grow": 0, "refuse": 0}
        for b in behs:
            steps = json.loads(b)
            labels = [_label(s["act"]) for s in steps]
            run.distinct("|".join(labels))
            for s in steps:
                if s["act"]["name"] == "Add":
                    how[s["act"]["how"]] += 1
        run.cov["replayed_add_cases"] = how
        vlib.require(min(how.values()) > 0, "generator vacuous: an Add case (fit/grow/refuse) never generated: %s" % how)
        run.sample({"kind": "forward replay behaviour (action labels)", "steps": [_label(s["act"]) for s in json.loads(edge[len(edge) // 2])]})
        run.sample({"kind": "forward replay step", "step": json.loads(small[len(small) // 3])[2]})
        if summ["drift_accepted_beyond_limit"] or summ["drift_internal"]:
            run.drift.append({"binding": "F", "accepted_where_design_refuses": summ["drift_accepted_beyond_limit"],
                              "internal_used_or_cap_differs_steps": summ["drift_internal"]})
        groups = {}
        for o in fails:
            groups.setdefault(json.dumps(o["desc"], sort_keys=True), []).append(o)
        for key in sorted(groups):
            g = groups[key]
            o = min(g, key=lambda x: (x["nsteps"], len(json.dumps(x["behaviour"]))))
            run.violation(o["desc"], {"kind": "localbuf-replay", "seed": run.seed, "behaviour": o["behaviour"], "step": o["step"],
                                      "msg": o["msg"][:2000], "failing_behaviours_with_this_descriptor": len(g),
                                      "fills": _needed_fills(o["behaviour"], fills)})
        # negative control of the replay: one expected value corrupted must be flagged
        failing_ids = {o["id"] for o in fails}
        good = next((b for i, b in enumerate(small) if i not in failing_ids), None)   # small behaviours are replayed first
        vlib.require(good is not None, "no behaviour available for the replay negative control")
        bad = json.loads(good)
        last = bad[-1]["exp"]
        if last["qids"]:
            last["qids"] = last["qids"][:-1]
            last["qlen"] -= 1
        else:
            last["qids"] = [1]
            last["qlen"] = 1
        _, nfails = _replay(vh, run.seed, fills_path, [json.dumps(bad, separators=(",", ":"))])
        vlib.require(len(nfails) == 1, "negative control: replay accepted a corrupted expected queue")
        run.cov["negative_control_replay"] = "behaviour with corrupted expected queue rejected (%s)" % nfails[0]["desc"].get("cls")

        # ------------------------------------------------------------------ B
        lines = open(tfile).read().splitlines()
        t = res["trace"]
        if t.error or t.violation:
            raise vlib.MachineryError("LocalBufferTrace: %s %s\n%s" % (t.error, t.violation, t.stdout[-2000:]))
        fin = [i for i in t.infos if isinstance(i, dict) and "drift_events" in i]
        dsamples = [i for i in t.infos if isinstance(i, dict) and i.get("drift") == "internal"]
        vlib.require(fin and fin[0]["events"] == len(lines), "trace validation did not consume the whole trace")
        run.add_tlc(t, "LocalBufferTrace")
        run.count(len(lines))
        run.cov["traces_validated_against_impl"] += traces
        evs = [json.loads(x) for x in lines]
        run.cov["trace"] = {
            "events": len(lines),
            "adds": sum(1 for e in evs if e["ev"] == "Add"),
            "adds_refused": sum(1 for e in evs if e["ev"] == "Add" and not e["ok"]),
            "next_items": sum(1 for e in evs if e["ev"] == "Next" and e["ok"]),
            "next_empty": sum(1 for e in evs if e["ev"] == "Next" and not e["ok"]),
            "limits": sorted({e["limit"] for e in evs}),
            "max_cap": max(e["cap"] for e in evs),
            "mismatches": fin[0]["mismatches"],
            "mismatches_per_class": {k: v for k, v in fin[0].get("per_class", {}).items() if v},
            "drift_events": fin[0]["drift_events"],
        }
        vlib.require(run.cov["trace"]["adds_refused"] > 0 and run.cov["trace"]["max_cap"] > 4096,
                     "driver never reached a limit / never grew the buffer")
        run.sample({"kind": "implementation trace event", "event": evs[len(evs) // 3]})
        if fin[0]["drift_events"]:
            run.drift.append({"binding": "B", "events_with_internal_or_accept_drift": fin[0]["drift_events"],
                              "first": dsamples[:3]})
        bgroups = {}
        for mm in t.mismatches:
            if not isinstance(mm, dict):
                continue
            d = {"binding": "B", "cls": mm.get("cls")}
            ex = mm.get("extra") or {}
            if mm.get("cls") == "field-mismatch":
                d["field"] = "+".join(f for f in FIELD_ORDER if f in ex.get("fields", []))
                d["at"] = "next"
            if mm.get("cls") in ("refused-below-limit", "refused-exact-fit"):
                d["fam"] = ex.get("fam")
            bgroups.setdefault(json.dumps(d, sort_keys=True), []).append(mm)
        for key in sorted(bgroups):
            g = bgroups[key]
            mm = g[0]
            ln = mm.get("line", 0)
            run.violation(json.loads(key),
                          {"kind": "localbuf-trace", "seed": run.seed, "traces": traces, "ops": ops, "model": mm,
                           "event": evs[ln - 1] if 0 < ln <= len(evs) else None,
                           "reported_mismatches_with_this_descriptor": len(g), "mismatches_total": fin[0]["mismatches"],
                           "cmd": "vh_localbuf localbuf-drive -seed %d -traces %d -ops %d" % (run.seed, traces, ops)})
        # negative control: a corrupted observable in a short prefix must be reported at exactly that line
        idx = next(i for i, e in enumerate(evs) if e["ev"] == "Next" and e["ok"])
        pre = [dict(e) for e in evs[:idx + 1]]
        pre[idx]["aux"] = (pre[idx]["aux"] + 1) % 256
        nt = vlib.tlc("localbuf", "LocalBufferTrace", "LocalBufferTrace.cfg", workers=1, scratch=sc, timeout=600,
                      files={"trace.ndjson": "\n".join(json.dumps(e) for e in pre) + "\n"})
        hit = [m for m in nt.mismatches if isinstance(m, dict) and m.get("line") == idx + 1 and
               "aux" in (m.get("extra") or {}).get("fields", [])]
        vlib.require(hit, "negative control: corrupted aux byte of a Next result was accepted by LocalBufferTrace")
        run.cov["negative_control_trace"] = "corrupted aux of the Next result at event %d rejected" % (idx + 1)

    run.cov["rule"] = ("distinct = distinct sequences of action labels (New:limit, Fill:pattern/n, AddFam:fit|grow|refuse, "
                       "Next:item|empty, Reset, Recycle) among the replayed behaviours; evaluations = replayed steps + validated trace events")
    run.assumptions += [
        "a record occupies len(key)+8 bytes (21 IPv4 / 45 IPv6): version byte, key, pktType, auxInfo, errno, 4 bytes pktSize",
        "an exact fit (used + record = slice length) is a fit; 'reached its size limit' = the record does not fit into max(len, limit) bytes",
        "keys have the length of their family (13 / 37 bytes)",
        "accepting an item where the design refuses is not judged (statement only restricts refusals); counted as drift",
    ]
    return run.finish()


def replay(path):
    d = json.load(open(path))["replay"]
    vh = vlib.build_vh("localbuf")
    with vlib.Scratch("verif-c23r-") as sc:
        if d["kind"] == "localbuf-replay":
            fp = os.path.join(sc, "fills.json")
            with open(fp, "w") as fh:
                json.dump(d.get("fills", {}), fh)
            rc, outs, _ = vlib.run_vh(vh, ["localbuf-replay", "-seed", str(d["seed"]), "-fills", fp],
                                      stdin_lines=[json.dumps(d["behaviour"], separators=(",", ":"))])
            bad = [o for o in outs if o.get("ok") is False]
            for o in bad:
                o.pop("behaviour", None)
            print(json.dumps(bad or outs, indent=1)[:4000])
            return 1 if bad else 0
        if d["kind"] == "localbuf-trace":
            tfile = os.path.join(sc, "trace.ndjson")
            with open(tfile, "w") as fh:
                subprocess.run([vh, "localbuf-drive", "-seed", str(d["seed"]), "-traces", str(d["traces"]), "-ops", str(d["ops"])],
                               stdout=fh, check=True)
            t = vlib.tlc("localbuf", "LocalBufferTrace", "LocalBufferTrace.cfg", workers=1, files={"trace.ndjson": tfile},
                         scratch=sc, timeout=3000)
            print(json.dumps(t.mismatches[:5], indent=1)[:4000])
            return 1 if t.mismatches else (2 if t.error else 0)
    print("unknown replay kind")
    return 2
