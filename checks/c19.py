"""C19 - packet parsing extracts the documented flow key and never panics.

M  PacketMC: the decision procedure of Packet.tla (Deliver, CheckFragment, ParseTCP/UDP/ICMP/Other,
   Ports, Finalize) walked for every packet of an edge-rich domain; TLC checks that the procedure
   computes the declarative rule Classify, the result shape, "the destination port is kept unless the
   destination is the ephemeral side" and the mirror law.
F  PacketGen: TLC enumerates edge-rich header-field products and evaluates Classify(p) and
   Classify(Reverse(p)); the harness builds real IPv4/IPv6 header bytes (random payload and unused
   fields), calls ParsePacketV4/V6 for both directions and compares field by field; the mirror relation
   is checked with the real EPHash.Reverse().
B  PacketTrace: a large seeded sample over the full field ranges is parsed by the real code, logged and
   evaluated by TLC event by event.
S  sweep: the table-free relational laws of the spec (mirror, kept-or-zero, at most one port dropped,
   addresses/protocol copied) over all port pairs in Go; every offending pair is handed to TLC (B) for
   the verdict and its abstract class.

Judged: packets the capture source can deliver and the documentation speaks about.  Recorded only
(evidence, no verdict): fewer bytes than the fixed IP header (outside the ring's contract) and IPv4
options (ihl > 5; the documentation is silent, DESIGN 8 item 19).
"""
import json
import os
import subprocess
import vlib

MANIFEST = {
    "level": "exploration",
    "technique": "TLA+ spec Packet/PacketRule: TLC exhaustive on the decision procedure + TLC-generated header-field cases "
                 "replayed on ParsePacketV4/V6 (both directions, real Reverse) + TLC validation of a seeded sample + "
                 "Go sweep of the table-free laws over all port pairs",
    "text": "PacketRule.tla is the documented decision procedure over abstract header fields (fragment / truncated / key with "
            "the common-port rule); TLC checks the procedure against the rule and the mirror law on an edge-rich domain, "
            "generates every case of the edge products (lengths at every limit, fragment offsets, 8 protocols, 11x11 ports, "
            "all 256 TCP flag bytes and ICMP types), and the real parser is compared field by field on real header bytes for "
            "both directions of each conversation; a seeded sample over the full ranges is validated by TLC and the relational "
            "laws are swept over all port pairs.",
    "note": "Case-analysis transcription: the spec's rule is the documented one, not derived. Payload and unused header bytes are "
            "sampled from the seed. Headers shorter than the fixed IP header and IPv4 options are exercised and recorded, not judged.",
    "ref": "6.6",
}

RECORDED = ("short-header", "ip-options")     # tags that take a case out of the judged set
ACTIONS = ("DeliverAny", "RejectShort", "CheckFragment", "ParseTCP", "ParseUDP", "ParseICMP", "ParseOther",
           "Ports", "Finalize", "Return")
FIELDS = ("cls", "sip", "sport", "dip", "dport", "proto", "aux")


def _class(tags):
    for t in RECORDED:
        if t in tags:
            return t, False
    if "both-ports-common" in tags:
        return "both-ports-common", True
    return "rule", True


def _proto(ver, proto):
    if proto == 6:
        return "tcp"
    if proto == 17:
        return "udp"
    if (ver, proto) in ((4, 1), (6, 58)):
        return "icmp"
    return "esp" if proto == 50 else "other"


def _diff(exp, got):
    if exp["cls"] != got["cls"]:
        return ["cls"]
    return sorted(f for f in FIELDS if exp[f] != got[f])


def _gen(run, sc, thorough):
    if thorough:
        g = vlib.tlc("packet", "PacketGenT", "PacketGenThorough.cfg", scratch=sc, timeout=900, workers=4)
    else:
        g = vlib.tlc("packet", "PacketGen", "PacketGenQuick.cfg", scratch=sc, timeout=600, workers=4)
    vlib.expect_tlc_ok(g, "PacketGen")
    vlib.require(len(g.traces) > 5000, "generator produced too few cases (%d)" % len(g.traces))
    run.add_tlc(g, "PacketGen")
    return g.traces


def _violate(run, seen, desc, replay):
    """one replay file per distinct abstract descriptor; the rest is counted"""
    k = json.dumps(desc, sort_keys=True)
    seen[k] = seen.get(k, 0) + 1
    if seen[k] == 1:
        run.violation(desc, replay)


def _record(run, recorded, cls, sample):
    r = recorded.setdefault(cls, {"count": 0, "sample": None})
    r["count"] += 1
    if r["sample"] is None:
        r["sample"] = sample


def main():
    run = vlib.Run("C19", "exploration")
    thorough = run.tier == "thorough"
    vh = vlib.build_vh("packet")
    recorded = {}
    vseen = {}
    with vlib.Scratch("verif-c19-") as sc:
        # ---- M: the decision procedure against the rule, laws, vacuity guard
        r = vlib.tlc("packet", "PacketMC", "PacketMC.cfg", coverage=True, scratch=sc, timeout=600, workers=4)
        vlib.expect_tlc_ok(r, "PacketMC")
        if r.violation:
            raise vlib.MachineryError("Packet design violates %s (spec error, not a code verdict)" % r.violation)
        for a in ACTIONS:
            vlib.require(r.coverage.get(a, (0, 0))[0] > 0, "vacuous: action %s never taken" % a)
        run.add_tlc(r, "PacketMC")

        # ---- F: TLC cases on the real parser
        cases = _gen(run, sc, thorough)
        variants = 3 if thorough else 1
        rc, outs, _ = vlib.run_vh(vh, ["c19-replay", "-seed", str(run.seed), "-variants", str(variants)],
                                  stdin_lines=[json.dumps(c, separators=(",", ":")) for c in cases], timeout=900)
        summ = [o for o in outs if o.get("summary")]
        vlib.require(summ and summ[0]["cases"] == len(cases), "replay did not process all cases")
        run.count(summ[0]["evaluations"])
        run.cov["traces_validated_against_impl"] += len(cases)
        judged_cases = 0
        for c in cases:
            cls, judged = _class(c["tags"])
            judged_cases += 1 if judged else 0
            p = c["p"]
            run.distinct((p["ver"], p["len"], p["ihl"], min(p["fragOff"], 2), p["proto"], p["sport"], p["dport"],
                          p["tcpFlags"], p["icmpType"], p["sip"] == p["dip"]))
        run.cov["judged_cases"] = judged_cases
        run.sample({"kind": "TLC case", "case": cases[len(cases) // 3]})
        fails = [o for o in outs if o.get("ok") is False]
        for o in fails:
            d = o["desc"]
            cls, judged = _class(d["tags"])
            if not judged:
                _record(run, recorded, cls, {"p": o["behaviour"]["p"], "exp": o["behaviour"]["exp"], "got": o["got"]})
                continue
            _violate(run, vseen, {"binding": "F", "class": cls, "ver": d["ver"], "proto": d["proto"], "exp": d["exp"],
                           "got": d["got"], "diff": "+".join(d["diff"])},
                          {"kind": "c19-case", "seed": run.seed, "variants": variants, "case": o["behaviour"],
                           "msg": o["msg"][:1500], "bytes": o.get("bytes"), "rbytes": o.get("rbytes")})
        # negative control F: a corrupted expectation must be rejected by the replay
        good = [c for c in cases if c["exp"]["cls"] == "Key" and c["p"]["proto"] == 6 and not c["tags"]]
        vlib.require(good, "no plain TCP key case for the negative control")
        bad = json.loads(json.dumps(good[len(good) // 2]))
        bad["exp"]["dport"] = (bad["exp"]["dport"] + 1) % 65536
        rc, nouts, _ = vlib.run_vh(vh, ["c19-replay", "-seed", str(run.seed)], stdin_lines=[json.dumps(bad)])
        vlib.require(any(o.get("ok") is False for o in nouts), "negative control: corrupted expectation accepted by the replay")
        run.cov["negative_control_F"] = "expected dport changed by one: rejected"

        # ---- S: sweep of the table-free laws over port pairs (Go), offenders judged by TLC below
        mode = "full" if thorough else "quick"
        sargs = ["c19-sweep", "-mode", mode, "-workers", str(min(vlib.NCPU, 16))]
        rc, souts, _ = vlib.run_vh(vh, sargs, timeout=3000)
        ssum = [o for o in souts if o.get("summary")]
        vlib.require(ssum, "sweep produced no summary")
        run.count(ssum[0]["evaluations"])
        run.cov["sweep"] = {"mode": mode, "ports": ssum[0]["ports"], "port_pairs_per_proto_and_family": ssum[0]["pairs"],
                            "parse_calls": ssum[0]["evaluations"],
                            "law_failures": {"%s/v%d/%s" % (o["desc"]["law"], o["desc"]["ver"], o["desc"]["proto"]): o["count"]
                                             for o in souts if o.get("ok") is False}}
        sweep_events = []
        for o in souts:
            if o.get("ok") is False:
                for ex in o["examples"]:
                    sweep_events.append(ex["event"])

        # ---- B: seeded sample over the full ranges, evaluated by TLC
        n = 200000 if thorough else 20000
        tfile = os.path.join(sc, "trace.ndjson")
        with open(tfile, "w") as fh:
            p = subprocess.run([vh, "c19-drive", "-seed", str(run.seed), "-n", str(n)], stdout=fh, stderr=subprocess.PIPE, text=True)
        if p.returncode != 0:
            raise vlib.MachineryError("c19-drive failed: " + p.stderr[-2000:])
        lines = open(tfile).read().splitlines()
        vlib.require(len(lines) == n, "driver logged %d of %d events" % (len(lines), n))
        lines += [json.dumps(e, separators=(",", ":")) for e in sweep_events]
        t = vlib.tlc("packet", "PacketTrace", "PacketTrace.cfg", workers=1, files={"trace.ndjson": "\n".join(lines) + "\n"},
                     scratch=sc, timeout=2400, heap="12g")
        if t.error:
            raise vlib.MachineryError("PacketTrace: %s\n%s" % (t.error, t.stdout[-2000:]))
        vlib.require(t.violation is None, "PacketTrace did not consume the whole trace: %s %s" % (t.violation, t.infos[:1]))
        run.add_tlc(t, "PacketTrace")
        run.count(2 * n)
        run.cov["trace_events"] = len(lines)
        run.cov["traces_validated_against_impl"] += 1
        run.sample({"kind": "implementation trace event", "event": json.loads(lines[n // 3])})
        keys = sum(1 for x in lines[:n] if '"got":{"cls":"Key"' in x)
        run.cov["trace_events_by_result"] = {"Key": keys,
                                             "Fragment": sum(1 for x in lines[:n] if '"got":{"cls":"Fragment"' in x),
                                             "Truncated": sum(1 for x in lines[:n] if '"got":{"cls":"Truncated"' in x),
                                             "panic": sum(1 for x in lines[:n] if '"got":{"cls":"panic"' in x)}
        vlib.require(keys > n // 4, "driver produced too few parsable packets")
        seen_sweep = 0
        for mm in t.mismatches:
            cls, judged = _class(mm["tags"])
            ev = json.loads(lines[mm["line"] - 1])
            src = ev.get("src", "")
            if src:
                seen_sweep += 1
            if not judged:
                _record(run, recorded, cls, {"p": mm["p"], "exp": mm["exp"], "got": mm["got"]})
                continue
            dd = _diff(mm["exp"], mm["got"]) or _diff(mm["rexp"], mm["rgot"]) or ["mirror"]
            case = {"p": mm["p"], "exp": mm["exp"], "rexp": mm["rexp"], "tags": mm["tags"], "mirror": True}
            _violate(run, vseen, {"binding": "sweep" if src else "B", "class": cls, "ver": mm["p"]["ver"],
                           "proto": _proto(mm["p"]["ver"], mm["p"]["proto"]), "exp": mm["exp"]["cls"],
                           "got": mm["got"]["cls"], "diff": "+".join(dd)},
                          {"kind": "c19-case", "seed": run.seed, "variants": 1, "case": case, "source": src or "c19-drive",
                           "got": mm["got"], "rgot": mm["rgot"]})
        vlib.require(seen_sweep == len(sweep_events),
                     "a pair that breaks a law of the spec was accepted by the rule (%d of %d rejected)" % (seen_sweep, len(sweep_events)))
        # negative control B: corrupt one logged observable of an accepted event
        okline = None
        bad_lines = {mm["line"] for mm in t.mismatches}
        for i in range(n // 2, n):
            if (i + 1) not in bad_lines and '"got":{"cls":"Key"' in lines[i]:
                okline = i
                break
        vlib.require(okline is not None, "no accepted key event for the negative control")
        e = json.loads(lines[okline])
        e["got"]["sport"] = (e["got"]["sport"] + 1) % 65536
        nt = vlib.tlc("packet", "PacketTrace", "PacketTrace.cfg", workers=1,
                      files={"trace.ndjson": json.dumps(e) + "\n"}, scratch=sc, timeout=600)
        vlib.require(len(nt.mismatches) == 1, "negative control: corrupted trace event accepted by TLC")
        run.cov["negative_control_B"] = "logged sport changed by one: MISMATCH printed"

    run.cov["recorded_not_judged"] = recorded
    if vseen:
        run.cov["mismatching_cases_per_descriptor"] = vseen
    for cls, r in recorded.items():
        run.note("%s: %d cases differ from the rule (recorded, not judged)" % (cls, r["count"]))
    run.cov["rule"] = ("F: TLC-enumerated header-field cases, distinct = distinct abstract field tuples "
                       "(ver,len,ihl,fragOff class,proto,sport,dport,flags,type,same-address); "
                       "B: %d seeded packets over the full ranges; sweep: %s port pairs x {tcp,udp} x {v4,v6}" % (n, mode))
    run.assumptions += [
        "header bytes the abstract packet does not determine (TOS, id, TTL, DF/MF, checksums, option bytes, payload) are random per seed",
        "fewer delivered bytes than the fixed IP header (20/40) is outside the capture source's contract: the parser panics there; recorded, not judged",
        "IPv4 options (ihl > 5): the parser reads the transport header at the fixed offset 20; the documentation is silent; recorded, not judged",
        "IPv6 extension headers are not modelled: the next-header byte of the fixed header is the protocol (as in the code)",
        "documented exception kept: ESP fragments are parsed like any ESP packet",
    ]
    return run.finish()


def replay(path):
    d = json.load(open(path))["replay"]
    vh = vlib.build_vh("packet")
    if d["kind"] == "c19-case":
        rc, outs, _ = vlib.run_vh(vh, ["c19-replay", "-seed", str(d["seed"]), "-variants", str(d.get("variants", 1))],
                                  stdin_lines=[json.dumps(d["case"])])
        bad = [o for o in outs if o.get("ok") is False]
        for o in bad:
            o.pop("behaviour", None)
        print(json.dumps(bad or outs, indent=1)[:3000])
        return 1 if bad else 0
    print("re-run: ./check C19")
    return 2
