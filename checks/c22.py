"""C22 - flow orientation does not depend on which side is seen first.

M  DirectionMC: Direction.tla (flow log on top of the parsing rule: Ignore, UpdateForward, UpdateReverse,
   InsertAsSeen, InsertMirrored + the documented direction heuristic) explored for every conversation of
   an edge-rich set with up to three packets in any order; TLC checks: a conversation never splits into
   two flows, the stored key is the one the first packet determined, it is the same whichever side is seen
   first when the heuristic is decisive for both (OrientationStable), handshakes / echo / timestamp
   exchanges are stored requester -> responder, packets are accounted once.
   DirectionMCNeg: the same with the as-built port-drop rule substituted - must fail (non-vacuity).
F  DirectionGen: TLC generates behaviours (first packet c2s or s2c, the other side's answer, a later
   packet) over port classes x TCP flags (all 256) x ICMP/ICMPv6 types (all 256) x address classes; each
   is sent through a real capture (capture.Manager + scripted capture source -> Capture.process ->
   ParsePacket -> addToFlowLog -> ClassifyPacketDirection) and the keys stored in the FlowLog with their
   packet counts are compared with the model after every packet.
B  DirectionTrace: seeded runs of many interleaved conversations between a handful of hosts (shared flows,
   mirrored keys meeting existing flows, fragments and truncated packets mixed in) through a real
   capture; one event per packet with the flow the real FlowLog touched; TLC accepts the trace iff it is
   a behaviour of Direction.tla.
S  the relational law OrientationStable over all port pairs in Go with the real functions; offending
   pairs become conversations that TLC and the real capture then judge (F).
"""
import json
import os
import subprocess
import vlib

MANIFEST = {
    "level": "exploration",
    "technique": "TLA+ spec Direction (flow log + direction heuristic over the Packet rule): TLC exhaustive with negative control + "
                 "TLC-generated conversations replayed through a real capture (Manager, scripted source, FlowLog inspected after "
                 "every packet) + Go sweep of the symmetry law over all port pairs",
    "text": "Direction.tla models addToFlowLog and the documented direction heuristic; TLC proves on the model that the stored "
            "orientation is independent of the first observed direction whenever the heuristic is decisive and that requests are "
            "stored requester->responder; every TLC behaviour (port classes, all TCP flag bytes, all ICMP types, multicast/broadcast "
            "peers) runs through the real capture loop and the FlowLog keys are compared after every packet; the symmetry law is "
            "swept over all port pairs with the real parser/classifier.",
    "note": "Case-analysis transcription of the documented heuristic. Only orientations the statement speaks about are judged "
            "(handshakes, echo/timestamp, unicast TCP/UDP with differing ports); conflicting evidence across exchange kinds "
            "(SYN seen one way, mid-stream packet the other way) is not compared. Differences confined to dropped ports are C19's.",
    "ref": "6.6",
}

ACTIONS = ("MCIgnore", "MCUpdateForward", "MCUpdateReverse", "MCInsertAsSeen", "MCInsertMirrored")


def _class(tags):
    return "both-ports-common" if "both-ports-common" in tags else "orientation"


def _starts_module(pairs):
    convs = ", ".join('Conv(%d, %d, "A", "u", %d, "B", "u", %d)' % (v, pr, sp, dp) for (v, pr, sp, dp) in sorted(pairs))
    return ("---- MODULE DirectionGenX ----\nEXTENDS DirectionGen\n"
            "XStarts == Legal(StartsOf({%s}, {K(\"mid\", 16, 16)}))\n====\n" % convs)


def _replay(run, vh, behs, seed):
    rc, outs, _ = vlib.run_vh(vh, ["c22-replay", "-seed", str(seed)],
                              stdin_lines=[json.dumps(b, separators=(",", ":")) for b in behs], timeout=1800)
    summ = [o for o in outs if o.get("summary")]
    vlib.require(summ and summ[0]["behaviours"] == len(behs), "replay did not process all behaviours: %s" % (outs[-1:],))
    return summ[0], [o for o in outs if o.get("ok") is False]


def main():
    run = vlib.Run("C22", "exploration")
    thorough = run.tier == "thorough"
    vh = vlib.build_vh("packet")
    recorded = {}
    vseen = {}

    def judge(fails, binding):
        for o in fails:
            d = o["desc"]
            cls = _class(d["tags"])
            if d["diff"] == "ports":
                # same orientation, same counts; only dropped ports differ: the parsing rule (C19) is judged there
                r = recorded.setdefault("ports-only:" + cls, {"count": 0, "sample": None})
                r["count"] += 1
                r["sample"] = r["sample"] or o["msg"][:400]
                continue
            if not d["judged"]:
                r = recorded.setdefault("not-decisive:" + d["diff"], {"count": 0, "sample": None})
                r["count"] += 1
                r["sample"] = r["sample"] or o["msg"][:400]
                continue
            desc = {"binding": binding, "class": cls, "ver": d["ver"], "kind": d["kind"], "diff": d["diff"],
                    "first": d["first"], "at": d["at"]}
            k = json.dumps(desc, sort_keys=True)
            vseen[k] = vseen.get(k, 0) + 1
            if vseen[k] == 1:
                run.violation(desc, {"kind": "c22-behaviour", "seed": run.seed, "behaviour": o["behaviour"],
                                     "step": o["step"], "msg": o["msg"][:1500], "got": o["got"]})

    with vlib.Scratch("verif-c22-") as sc:
        # ---- M
        r = vlib.tlc("packet", "DirectionMC", "DirectionMC.cfg", coverage=True, scratch=sc, timeout=900, workers=4,
                     consts="CONSTANT MCPorts <- MCPortsT" if thorough else None)
        vlib.expect_tlc_ok(r, "DirectionMC")
        if r.violation:
            raise vlib.MachineryError("Direction design violates %s (spec error, not a code verdict)" % r.violation)
        for a in ACTIONS:
            vlib.require(r.coverage.get(a, (0, 0))[0] > 0, "vacuous: action %s never taken" % a)
        run.add_tlc(r, "DirectionMC")
        neg = vlib.tlc("packet", "DirectionMCNeg", "DirectionMCNeg.cfg", scratch=sc, timeout=600, workers=4)
        vlib.require(neg.violation in ("Laws", "SeenFirstIrrelevant"),
                     "negative control: the as-built port-drop rule must break orientation stability on the model (got %s / %s)"
                     % (neg.violation, neg.error))
        run.cov["negative_control_M"] = "as-built port-drop rule substituted: invariant %s violated" % neg.violation

        # ---- F: TLC behaviours through the real capture
        if thorough:
            g = vlib.tlc("packet", "DirectionGenT", "DirectionGenThorough.cfg", scratch=sc, timeout=1200, workers=4)
        else:
            g = vlib.tlc("packet", "DirectionGen", "DirectionGenQuick.cfg", scratch=sc, timeout=900, workers=4)
        vlib.expect_tlc_ok(g, "DirectionGen")
        behs = g.traces
        vlib.require(len(behs) > 5000, "generator produced too few behaviours (%d)" % len(behs))
        run.add_tlc(g, "DirectionGen")
        summ, fails = _replay(run, vh, behs, run.seed)
        run.count(summ["steps"])
        run.cov["traces_validated_against_impl"] += len(behs)
        run.cov["packets_through_real_capture"] = summ["packets"]
        run.cov["capture_restarts"] = summ["capture_restarts"]
        judged = 0
        for b in behs:
            p = b[0]["act"]["p"]
            judged += 1 if b[0]["exp"]["judged"] else 0
            run.distinct((p["ver"], p["proto"], p["sport"], p["dport"], p["tcpFlags"], p["icmpType"], p["scls"], p["dcls"],
                          p["sip"] == p["dip"], b[0]["act"]["name"]))
        run.cov["judged_behaviours"] = judged
        vlib.require(judged > len(behs) // 3, "too few decisive behaviours")
        names = {}
        for b in behs:
            for s in b:
                names[s["act"]["name"]] = names.get(s["act"]["name"], 0) + 1
        run.cov["model_actions_replayed"] = names
        for a in ("UpdateForward", "UpdateReverse", "InsertAsSeen", "InsertMirrored"):
            vlib.require(names.get(a, 0) > 0, "no behaviour exercises %s" % a)
        run.sample({"kind": "forward replay behaviour", "steps": [{"act": s["act"]["name"], "p": s["act"]["p"],
                                                                   "flows": s["exp"]["flows"]} for s in behs[len(behs) // 2]]})
        judge(fails, "F")

        # negative control F: mirror the expected key of a decisive behaviour -> the replay must reject it
        failed_ids = {json.dumps(f.get("behaviour"), sort_keys=True) for f in fails if isinstance(f, dict)}
        good = [b for b in behs if b[0]["exp"]["judged"] and not b[0]["exp"]["tags"] and b[0]["act"]["p"]["sip"] != b[0]["act"]["p"]["dip"]
                and json.dumps(b, sort_keys=True) not in failed_ids]
        vlib.require(good, "no decisive behaviour for the negative control")
        bad = json.loads(json.dumps(good[len(good) // 2]))
        for s in bad:
            for f in s["exp"]["flows"]:
                k = f["k"]
                k["sip"], k["dip"], k["sport"], k["dport"] = k["dip"], k["sip"], k["dport"], k["sport"]
        _, nfails = _replay(run, vh, [bad], run.seed)
        vlib.require(nfails and nfails[0]["desc"]["diff"].startswith("mirrored"),
                     "negative control: a mirrored expectation was accepted by the replay")
        run.cov["negative_control_F"] = "expected key mirrored: rejected as '%s'" % (nfails[0]["desc"]["diff"] if nfails else "(not conclusive)")

        # ---- B: interleaved conversations through a real capture, validated by TLC
        traces, pkts, nconv = (12, 3000, 80) if thorough else (4, 1500, 60)
        tfile = os.path.join(sc, "dtrace.ndjson")
        with open(tfile, "w") as fh:
            p = subprocess.run([vh, "c22-drive", "-seed", str(run.seed), "-traces", str(traces), "-pkts", str(pkts),
                                "-convs", str(nconv)], stdout=fh, stderr=subprocess.PIPE, text=True)
        if p.returncode != 0:
            raise vlib.MachineryError("c22-drive failed: " + p.stderr[-2000:])
        lines = open(tfile).read().splitlines()
        vlib.require(len(lines) == traces * (pkts + 1), "driver logged %d events" % len(lines))
        t = vlib.tlc("packet", "DirectionTrace", "DirectionTrace.cfg", workers=1, files={"trace.ndjson": tfile},
                     scratch=sc, timeout=2400, heap="8g")
        if t.error:
            raise vlib.MachineryError("DirectionTrace: %s\n%s" % (t.error, t.stdout[-2000:]))
        run.add_tlc(t, "DirectionTrace")
        run.count(len(lines))
        run.cov["trace_events"] = len(lines)
        run.cov["trace_max_flows"] = max(json.loads(x).get("nflows", 0) for x in lines[-50:])
        run.cov["trace_ignored_packets"] = sum(1 for x in lines if '"changed":0' in x)
        vlib.require(run.cov["trace_ignored_packets"] > 0, "driver produced no fragment / truncated packet")
        run.cov["traces_validated_against_impl"] += traces
        run.sample({"kind": "implementation trace event", "event": json.loads(lines[len(lines) // 3])})
        if t.violation:
            mm = t.mismatches[0] if t.mismatches else {}
            ln = mm.get("line", 0)
            replay = {"kind": "c22-trace", "seed": run.seed, "model": mm,
                      "event": json.loads(lines[ln - 1]) if 0 < ln <= len(lines) else None,
                      "cmd": "vh c22-drive -seed %d -traces %d -pkts %d -convs %d" % (run.seed, traces, pkts, nconv)}
            if mm.get("judged"):
                run.violation({"binding": "B", "class": _class(mm.get("tags", [])), "ver": mm["p"]["ver"],
                               "kind": "proto%d" % mm["p"]["proto"], "diff": "stored-key", "at": mm.get("action")}, replay)
            else:
                run.drift.append({"binding": "B", "at": mm.get("action"), "line": ln, "model": mm})
                recorded["trace-drift:%s" % mm.get("action")] = {"count": 1, "sample": json.dumps(mm)[:600]}
        else:
            # negative control: mirror the logged key of one first packet -> TLC must reject the trace
            bad = list(lines)
            idx = next(i for i in range(len(bad) // 2, len(bad))
                       if '"changed":1' in bad[i] and json.loads(bad[i])["hit"]["n"] == 1
                       and json.loads(bad[i])["hit"]["k"]["sip"] != json.loads(bad[i])["hit"]["k"]["dip"])
            e = json.loads(bad[idx])
            k = e["hit"]["k"]
            k["sip"], k["dip"], k["sport"], k["dport"] = k["dip"], k["sip"], k["dport"], k["sport"]
            bad[idx] = json.dumps(e)
            nt = vlib.tlc("packet", "DirectionTrace", "DirectionTrace.cfg", workers=1,
                          files={"trace.ndjson": "\n".join(bad) + "\n"}, scratch=sc, timeout=2400, heap="8g")
            vlib.require(nt.violation is not None and nt.mismatches and nt.mismatches[0].get("line") == idx + 1,
                         "negative control: a mirrored stored key in the trace was accepted")
            run.cov["negative_control_B"] = "stored key of event %d mirrored: trace rejected at that event" % (idx + 1)

        # ---- S: symmetry law over port pairs with the real functions; offenders judged through F
        mode = "full" if thorough else "quick"
        rc, souts, _ = vlib.run_vh(vh, ["c22-sweep", "-mode", mode, "-workers", str(min(vlib.NCPU, 16))], timeout=3000)
        ssum = [o for o in souts if o.get("summary")]
        vlib.require(ssum, "sweep produced no summary")
        run.count(ssum[0]["evaluations"])
        offenders = [o for o in souts if o.get("ok") is False]
        run.cov["sweep"] = {"mode": mode, "ports": ssum[0]["ports"], "ordered_port_pairs_per_proto_and_family": ssum[0]["pairs"],
                            "parse_and_classify_calls": ssum[0]["evaluations"],
                            "unstable_pairs": {"v%d/%s" % (o["desc"]["ver"], o["desc"]["proto"]): o["count"] for o in offenders}}
        pairs = set()
        for o in offenders:
            for ex in o["examples"]:
                pairs.add((ex["ver"], 6 if ex["proto"] == "tcp" else 17, ex["sport"], ex["dport"]))
        if pairs:
            x = vlib.tlc("packet", "DirectionGenX", {"cfg_text": "SPECIFICATION GenSpec\nCONSTANTS\n  Starts <- XStarts\nCHECK_DEADLOCK FALSE\n"},
                         files={"DirectionGenX.tla": _starts_module(pairs)}, scratch=sc, timeout=600, workers=2)
            vlib.expect_tlc_ok(x, "DirectionGenX")
            run.add_tlc(x, "DirectionGenX")
            xs, xfails = _replay(run, vh, x.traces, run.seed)
            run.count(xs["steps"])
            # a pair is unstable iff at least one of its two first-packet behaviours is stored against the model
            hit = set()
            for o in xfails:
                if not o["desc"]["diff"].startswith("mirrored"):
                    continue
                p = o["behaviour"][0]["act"]["p"]
                hit.add((p["ver"], p["proto"], min(p["sport"], p["dport"]), max(p["sport"], p["dport"])))
            missing = [q for q in pairs if (q[0], q[1], min(q[2], q[3]), max(q[2], q[3])) not in hit]
            vlib.require(not missing, "pairs unstable in the sweep are accepted by the model replay: %s" % missing[:5])
            judge(xfails, "sweep")

    run.cov["recorded_not_judged"] = recorded
    if vseen:
        run.cov["mismatching_behaviours_per_descriptor"] = vseen
    for cls, r in recorded.items():
        run.note("%s: %d behaviours differ from the model (recorded, not judged)" % (cls, r["count"]))
    run.cov["rule"] = ("F: TLC behaviours of 3 packets per conversation, distinct = distinct first packets "
                       "(ver,proto,ports,flags,type,address classes,same-address,model action); sweep: %s port pairs x {tcp,udp} x {v4,v6}" % mode)
    run.assumptions += [
        "the FlowLog of the running Capture is read through reflection (unexported field, exported accessors) while the capture "
        "loop is parked in the scripted source; the public view (GetFlowMaps) is cross-checked every 64 conversations",
        "decisive = TCP handshake, ICMP echo/timestamp, unicast TCP/UDP with differing ports; for everything else either orientation is accepted",
        "first packets of different exchange kinds (SYN one way, mid-stream the other way) are not compared: the heuristics can legitimately conflict",
        "a multicast / broadcast peer never sends from that address (only the c2s direction exists)",
        "header bytes outside the abstract fields are random per seed",
        "B: the driver's conversations have at most one common service port (client ports >= 1025, never 8080); the both-common class is covered by F",
    ]
    return run.finish()


def replay(path):
    d = json.load(open(path))["replay"]
    vh = vlib.build_vh("packet")
    if d["kind"] == "c22-behaviour":
        rc, outs, _ = vlib.run_vh(vh, ["c22-replay", "-seed", str(d["seed"])], stdin_lines=[json.dumps(d["behaviour"])])
        bad = [o for o in outs if o.get("ok") is False]
        for o in bad:
            o.pop("behaviour", None)
        print(json.dumps(bad or outs, indent=1)[:3000])
        return 1 if bad else 0
    print("re-run: ./check C22")
    return 2
