"""C01 - stored flow blocks read back byte-for-byte as written.

M  GPStoreMC_C01: all write histories (sessions of 1-2 blocks, 7 payload size classes per column relative to the
   4 KiB write buffer) - invariants Consistent / AlwaysReadable, action property AppendOnly.
F  GPStoreGen: every history of <= 2 blocks (exhaustive over classes x session structure) and sampled longer ones
   are executed through the real gpfile writer with concrete bytes of each class, for every encoder and several
   levels; after every session the day is re-opened by the real reader (with and without directory-name
   suffix) and every block of every column is compared byte for byte, plus per-block and day summaries.
B  clean write histories through the real DBWriter (flow-shaped data, all encoders, small/large blocks) run
   under strace; system calls (order, offsets, sizes of writes) and reader/query/listing observations are
   validated by TLC against GPStore (GPStoreTrace).
"""
import json
import os

import vlib
from checks import store_exp as sx
from checks import store_faults as sf

MANIFEST = {
    "level": "model_checking",
    "technique": "TLA+ spec GPStore: TLC exhaustive over write histories/payload classes + TLC-generated histories replayed through the "
                 "real gpfile writer/reader byte-for-byte + strace traces of real write-outs validated by TLC",
    "text": "The write path is specified at system-call granularity (bufio write-through, null-encoding fallback, offsets as running "
            "sums); TLC proves read-back on all histories of the bounded model, every generated history is executed on the real code "
            "with real bytes of each size class for each encoder/level and read back byte for byte, and real write-outs are accepted "
            "by TLC as behaviours of the specification (same writes, same offsets).",
    "note": "Byte contents inside a size class are sampled from the seed; histories bounded (model: 3 blocks; replay: all histories of 2 "
            "blocks + sampled longer ones); encoders lz4, zstd, null with levels {default, 1, max}.",
    "ref": "6.1 C01",
}

ENCODERS = [("lz4", 0), ("zstd", 0), ("null", 0), ("zstd,lz4,null", 0)]
ENC_THOROUGH = [("lz4", 0), ("lz4", 1), ("lz4", 12), ("zstd", 0), ("zstd", 1), ("zstd", 19), ("null", 0), ("zstd,lz4,null", 0), ("lz4,zstd", 3)]


def main():
    run = vlib.Run("C01", "model_checking")
    thorough = run.tier == "thorough"
    vh = vlib.build_vh("store")
    with vlib.Scratch("verif-c01-") as sc:
        # ---- M
        r = vlib.tlc("store", "GPStoreMC", "GPStoreMC_C01.cfg", coverage=True, scratch=sc, timeout=2400,
                     consts=None if thorough else "CONSTANT MaxBlocks = 2")
        vlib.expect_tlc_ok(r, "GPStoreMC_C01")
        if r.violation:
            raise vlib.MachineryError("GPStore violates %s on the model (specification error)" % r.violation)
        for a in ("W_OpenCol", "W_FileOp", "W_RenameMeta", "W_RenameDir"):
            vlib.require(r.coverage.get(a, (0, 0))[0] > 0, "vacuous: %s never taken" % a)
        run.add_tlc(r, "GPStoreMC_C01")
        # negative control of the invariant: the as-built fallback without rewind must violate it
        n = vlib.tlc("store", "GPStoreMC", "GPStoreMC_C01.cfg", scratch=sc, timeout=600,
                     consts="CONSTANT SeekOnFallback = FALSE\nCONSTANT MaxBlocks = 1")
        vlib.require(n.violation in ("AlwaysReadable", "Consistent"), "negative control: model without rewind was not rejected")
        run.cov["negative_control_model"] = "SeekOnFallback=FALSE violates %s" % n.violation

        # ---- F
        g = vlib.tlc("store", "GPStoreGen", "GPStoreGen.cfg", scratch=sc, timeout=1200)
        vlib.expect_tlc_ok(g, "GPStoreGen")
        behs = sorted(g.traces, key=lambda b: json.dumps(b, sort_keys=True))   # TLC prints in worker order
        vlib.require(len(behs) >= 1000, "generator produced too few histories (%d)" % len(behs))
        run.add_tlc(g, "GPStoreGen")
        if thorough:
            g3 = vlib.tlc("store", "GPStoreGen", "GPStoreGen.cfg", scratch=sc, timeout=1800, workers=4, simulate=500, depth=200,
                          seed=run.seed, consts="CONSTANT MaxBlocks = 4")
            vlib.expect_tlc_ok(g3, "GPStoreGen-sim")
            behs = behs + g3.traces
        encs = ENC_THOROUGH if thorough else ENCODERS
        if not thorough:
            # quick: every history for lz4, every third for the others (rotating with the seed)
            pass
        total = 0
        for ei, (enc, level) in enumerate(encs):
            sub = behs if (thorough or ei == 0) else [b for i, b in enumerate(behs) if (i + run.seed + ei) % 3 == 0]
            if "," in enc:      # mixed compressors only matter for histories with several sessions
                sub = [b for b in sub if len(b) > 1] or sub
            root = os.path.join(sc, "replay-%s-%d" % (enc.replace(",", "+"), level))
            os.makedirs(root)
            nsh = 8
            shards = [sub[i::nsh] for i in range(nsh)]
            shards = [sh for sh in shards if sh]

            def one(k, sh):
                r_ = os.path.join(root, "sh%d" % k)
                os.makedirs(r_)
                return vlib.run_vh(vh, ["store-replay", "-seed", str(run.seed + 131 * k), "-root", r_, "-enc", enc, "-level", str(level)]
                                   + (["-big"] if thorough else []),
                                   stdin_lines=[json.dumps(b, separators=(",", ":")) for b in sh], timeout=3000)
            res = sx.parallel(one, list(enumerate(shards)), workers=nsh)
            outs = [o for (_, os_, _) in res for o in os_]
            summs = [o for o in outs if o.get("summary")]
            vlib.require(len(summs) == len(shards) and sum(x["behaviours"] for x in summs) == len(sub),
                         "store-replay did not process all histories")
            classes = {}
            for x in summs:
                for k_, v_ in x["classes"].items():
                    classes[k_] = classes.get(k_, 0) + v_
            summ = [{"behaviours": len(sub), "skipped": sum(x["skipped"] for x in summs), "sessions": sum(x["sessions"] for x in summs),
                     "classes": classes}]
            total += summ[0]["behaviours"] - summ[0]["skipped"]
            run.count(summ[0]["sessions"])
            run.cov.setdefault("replay", []).append({"enc": enc, "level": level, "histories": summ[0]["behaviours"],
                                                     "skipped_class_unreachable": summ[0]["skipped"], "classes": summ[0]["classes"]})
            for o in outs:
                if o.get("ok") is False:
                    run.violation(dict(o.get("desc", {}), binding="F"),
                                  {"kind": "store-replay", "seed": run.seed, "enc": enc, "level": level,
                                   "behaviour": o.get("behaviour"), "msg": o.get("msg"), "step": o.get("step")})
        run.cov["traces_validated_against_impl"] += total
        for b in behs:
            run.distinct(json.dumps([[s["bs"], s["pays"]] for s in b], sort_keys=True))
        run.sample({"kind": "generated history", "sessions": behs[len(behs) // 2]})

        # ---- B: clean real write-outs under strace validated by the trace specification
        if sx.strace_ok():
            cfgs = [([[1], [2, 3], [4]], e, p, run.seed + i) for i, (e, p) in
                    enumerate([("lz4", "m"), ("zstd", "l"), ("null", "m")] if not thorough else
                              [(e, p) for e in ("lz4", "zstd", "null") for p in ("s", "m", "l")])]
            xs = []
            for ci, (hist, enc, profile, seed) in enumerate(cfgs):
                base = os.path.join(sc, "clean%d" % ci)
                os.makedirs(base)
                xs.append(sx.run_experiment(vh, base, hist, None, 0, None, "clean", None, seed, enc, profile, 900000 + ci, []))
            vlib.require(all(not x.error for x in xs), "clean experiments failed: %s" % [x.error for x in xs if x.error])
            verdicts, drift = sx.validate(run, xs, sc, "clean")
            for x in xs:
                run.count(1)
                if x.xid in drift:
                    run.drift.append({"experiment": x.desc, "at": drift[x.xid]})
                    for d, why in sf.direct_oracle(x):
                        run.violation(dict(d, binding="B"), {"experiment": x.desc, "why": why})
                    continue
                run.cov["traces_validated_against_impl"] += 1
                for v in verdicts.get(x.xid, []):
                    if not (v["reader_ok"] and v["query_ok"] and v["list_ok"]):
                        run.violation({"binding": "B", "kind": "clean-writeout-readback", "enc": x.desc["enc"],
                                       "reader_ok": v["reader_ok"], "query_ok": v["query_ok"], "list_ok": v["list_ok"]},
                                      {"experiment": x.desc, "verdict": v})
            run.sample({"kind": "strace trace of real write-outs", "events": [e["ev"] for e in xs[0].events][:40]})
        else:
            run.note("strace unavailable: binding B skipped")
    run.cov["rule"] = ("F: all histories of <=2 blocks over 7 payload size classes x 2 model columns x session structure (+ simulated "
                       "4-block histories in thorough) x encoders; distinct = distinct (session structure, class vector)")
    run.assumptions += ["bytes inside a size class are seeded samples", "model column 1/2 stand for the odd/even real columns"]
    return run.finish()


def replay(path):
    d = json.load(open(path))["replay"]
    if d.get("kind") == "store-replay":
        vh = vlib.build_vh("store")
        with vlib.Scratch("verif-c01r-") as sc:
            rc, outs, _ = vlib.run_vh(vh, ["store-replay", "-seed", str(d["seed"]), "-root", sc, "-enc", d["enc"], "-level", str(d["level"])],
                                      stdin_lines=[json.dumps(d["behaviour"])])
        bad = [o for o in outs if o.get("ok") is False]
        print(json.dumps(bad or outs, indent=1)[:3000])
        return 1 if bad else 0
    print(json.dumps(d, indent=1)[:3000])
    return 2
