"""C14 - result ordering is deterministic and the row limit keeps the top rows.

The oracle does not pin a tie-break.  For (sort key, direction, ascending) Sorting.tla defines the
primary measure and demands of the output for an input multiset: (1) a permutation of the input,
(2) consecutive rows ordered by the primary measure in the requested direction (time labels as
instants), (3) the same sequence for every arrival order of the same rows, (4) limit n = its
first n rows.

M  SortingMC: the mechanism (arrive in any order, insertion sort with "primary measure, then a
   fixed total order over attributes and all labels", truncate) explored exhaustively over a
   10-row universe (equal counters, equal instants in two zones, rows differing in one label,
   IPv4/IPv6, rows without time label): (1)-(4) hold for every arrival order.  Negative model run:
   the comparator as built (struct inequality of time labels, host id ignored) violates (3).
F  SortingGen: every multiset of <=4 rows x every sort configuration with the set of admissible
   outputs computed by TLC; the harness sorts every permutation with results.By(...).Sort, checks
   membership / equality of outputs, truncates with Statement.PostProcess(NumResults = n), sorts
   with the statement Args.Prepare builds for the configuration, and runs the cases through the
   distributed query runner (scripted querier, JSON transport, every arrival order of the hosts'
   results, repeated because the aggregation iterates a Go map).
B  SortingTrace: seeded multisets of up to 50 rows (beyond insertion sort) in 20-50 arrival orders,
   also through PostProcess' time binning (rows come out of a Go map); TLC evaluates (1)-(4).
"""
import json
import os
import subprocess
import vlib

MANIFEST = {
    "level": "model_checking",
    "technique": "TLA+ spec Sorting: TLC exhaustive + TLC-generated admissible outputs checked on results.By/PostProcess/"
                 "distributed runner for all arrival orders + TLC trace validation of seeded 50-row sorts",
    "text": "Sorting.tla states the ordering property observationally (permutation, ordered by the primary measure, same output for "
            "every arrival order, limit = prefix) without pinning a tie-break; TLC proves it for the documented mechanism on all "
            "arrival orders of all results of <=3 rows (4 thorough) and shows the as-built comparator breaks determinism; every "
            "multiset of <=4 rows x 18 sort configurations is sorted in all permutations by the real code and compared with the "
            "TLC-computed admissible outputs, also through Args.Prepare and the distributed query runner; seeded 50-row multisets "
            "are validated by TLC.",
    "note": "Rows are compared with the time label as an instant. Multisets with two rows that agree on all labels and attributes "
            "but not on their counters are excluded (the statement's tie-break cannot order them). Go map iteration is random: "
            "distributed cases with ties are run >=24 times, so a missing order is found with high probability per case and "
            "practically certainly per class of case.",
    "ref": "6.4",
}

ACTIONS = ("Arrive", "Sort", "LimitTo", "Deliver")


def classify(rows):
    """Abstract class of an input multiset: which row pairs the statement names does it contain?"""
    zone = hostid = False
    for i, a in enumerate(rows):
        for b in rows[i + 1:]:
            same_attrs = all(a[f] == b[f] for f in ("sip", "dip", "proto", "dport"))
            if not same_attrs or a["ts"] != b["ts"]:
                continue
            if a["ts"] != 0 and a["zone"] != b["zone"] and any(a[f] != b[f] for f in ("iface", "host", "hostid")):
                zone = True
            if a["hostid"] != b["hostid"] and a["host"] == b["host"] and a["iface"] == b["iface"]:
                hostid = True
    if zone and hostid:
        return "hostid+zone"
    if zone:
        return "equal-instant-other-zone"
    if hostid:
        return "only-hostid"
    return "other"


def _desc(o):
    d = dict(o["desc"])
    d.pop("differ", None)
    if d.get("rule") in ("determinism", "limit", "permutation"):
        d["cls"] = classify(o["behaviour"]["rows"])
    return d


def main():
    run = vlib.Run("C14", "model_checking")
    thorough = run.tier == "thorough"
    vh = vlib.build_vh("results")
    found = {}

    def report(desc, replay):
        k = json.dumps(desc, sort_keys=True)
        if k in found:
            found[k][2] += 1
        else:
            found[k] = [desc, replay, 1]

    with vlib.Scratch("verif-c14-") as sc:
        # ---------------------------------------------------------------- M
        mcs = [("SortingMCFull.cfg", 900), ("SortingMC4.cfg", 1500)] if thorough else [("SortingMC.cfg", 600)]
        for cfg, to in mcs:
            r = vlib.tlc("results", "SortingMC", cfg, coverage=(cfg != "SortingMC4.cfg"), scratch=sc, timeout=to)
            vlib.expect_tlc_ok(r, cfg)
            if r.violation:
                raise vlib.MachineryError("Sorting design violates %s (spec error, not a code verdict)\n%s"
                                          % (r.violation, "\n".join(r.cex[:60])))
            if r.coverage:
                for a in ACTIONS:
                    vlib.require(r.coverage.get(a, (0, 0))[0] > 0, "vacuous: action %s never taken" % a)
            run.add_tlc(r, cfg)
        neg = vlib.tlc("results", "SortingMC", "SortingMCAsBuilt.cfg", scratch=sc, timeout=300)
        vlib.require(neg.violation == "DeterminismOK",
                     "model negative control: as-built comparator did not violate DeterminismOK (%s / %s)" % (neg.violation, neg.error))
        run.cov["model_negative_control"] = "AsBuilt = TRUE: DeterminismOK violated after %d states" % neg.distinct

        # ---------------------------------------------------------------- F
        g = vlib.tlc("results", "SortingGen", "SortingGen.cfg", scratch=sc, timeout=900)
        vlib.expect_tlc_ok(g, "SortingGen")
        vlib.require(len(g.traces) >= 1000, "generator produced too few multisets (%d)" % len(g.traces))
        run.add_tlc(g, "SortingGen")
        cases = g.traces
        # negative control: a case whose only admissible output is replaced by its reverse must be rejected
        ctl = None
        for c in cases:
            for k in c["cases"]:
                if len(c["rows"]) >= 2 and len(k["adm"]) == 1 and k["adm"][0] != k["adm"][0][::-1]:
                    ctl = {"rows": c["rows"], "canon": c["canon"], "cases": [dict(k, adm=[k["adm"][0][::-1]])]}
                    break
            if ctl:
                break
        vlib.require(ctl is not None, "no case with a unique admissible output for the negative control")
        lines = [json.dumps(c, separators=(",", ":")) for c in cases]
        rc, outs, _ = vlib.run_vh(vh, ["sort-replay"], stdin_lines=lines + [json.dumps(ctl, separators=(",", ":"))], timeout=1800)
        summ = [o for o in outs if o.get("summary")]
        vlib.require(summ and summ[0]["behaviours"] == len(lines) + 1, "sort-replay did not process all cases")
        fails = [o for o in outs if o.get("ok") is False]
        vlib.require(any(o["id"] == len(lines) and o["desc"]["rule"] == "order" for o in fails),
                     "negative control: reversed admissible output was accepted by sort-replay")
        fails = [o for o in fails if o["id"] != len(lines)]
        run.count(summ[0]["sorts"] + summ[0]["limits"] + summ[0]["statements"])
        run.cov["forward_multisets"] = len(cases)
        run.cov["forward_cases"] = summ[0]["configs"] - 1      # without the negative control
        run.cov["sorts_over_all_permutations"] = summ[0]["sorts"]
        run.cov["limit_applications"] = summ[0]["limits"]
        run.cov["prepared_statements_sorted"] = summ[0]["statements"]
        run.cov["traces_validated_against_impl"] += summ[0]["configs"] - 1
        ties = 0
        for c in cases:
            for k in c["cases"]:
                if len(k["adm"]) > 1:
                    ties += 1
                    run.distinct(json.dumps([c["canon"], [(r["ts"], r["zone"], r["iface"], r["host"], r["hostid"], r["sip"], r["br"], r["pr"])
                                                          for r in c["rows"]], k["key"], k["dir"], k["asc"]]))
        run.cov["forward_cases_with_ties_in_primary"] = ties
        mid = cases[len(cases) // 2]
        run.sample({"kind": "forward case", "rows": [(x["ts"], x["zone"], x["iface"], x["host"], x["hostid"], x["sip"]) for x in mid["rows"]],
                    "cfg": {k: mid["cases"][0][k] for k in ("key", "dir", "asc")}, "admissible": mid["cases"][0]["adm"]})
        for o in fails:
            report(_desc(o), {"kind": "sort-replay", "behaviour": o["behaviour"], "cfg": o.get("cfg"), "perm": o.get("perm"),
                              "differ": o["desc"].get("differ"), "msg": o.get("msg", "")[:3000]})

        # ---- the distributed query path on the cases with pairwise different keys
        dl = lines if thorough else [l for l, c in zip(lines, cases) if len(c["rows"]) <= 3]
        reps = 48 if thorough else 24
        rc, outs, _ = vlib.run_vh(vh, ["dist-replay", "-reps", str(reps)], stdin_lines=dl, timeout=2400)
        summ = [o for o in outs if o.get("summary")]
        vlib.require(summ and summ[0]["behaviours"] == len(dl), "dist-replay did not process all cases")
        vlib.require(summ[0]["runs"] > 10000, "dist-replay executed too few runs")
        run.count(summ[0]["runs"])
        run.cov["distributed_cases"] = summ[0]["configs"]
        run.cov["distributed_runs"] = summ[0]["runs"]
        run.cov["traces_validated_against_impl"] += summ[0]["configs"]
        for o in outs:
            if o.get("ok") is False:
                report(_desc(o), {"kind": "dist-replay", "reps": reps, "behaviour": o["behaviour"], "cfg": o.get("cfg"),
                                  "perm": o.get("perm"), "differ": o["desc"].get("differ"), "msg": o.get("msg", "")[:3000]})

        # ---------------------------------------------------------------- B
        ncases, maxrows, shuf = (240, 50, 50) if thorough else (48, 50, 20)
        tfile = os.path.join(sc, "trace.ndjson")
        with open(tfile, "w") as fh:
            p = subprocess.run([vh, "sort-drive", "-seed", str(run.seed), "-cases", str(ncases), "-maxrows", str(maxrows),
                                "-shuffles", str(shuf)], stdout=fh, stderr=subprocess.PIPE, text=True)
        cmd = "vh_results sort-drive -seed %d -cases %d -maxrows %d -shuffles %d" % (run.seed, ncases, maxrows, shuf)
        if p.returncode != 0:
            if "PANIC" in p.stderr:
                report({"binding": "B", "rule": "panic"}, {"kind": "sort-drive", "cmd": cmd, "stderr": p.stderr[-3000:]})
            else:
                raise vlib.MachineryError("sort-drive failed: " + p.stderr[-2000:])
        else:
            tl = open(tfile).read().splitlines()
            evs = [json.loads(x) for x in tl]
            # negative control (case tr = -1): two rows with different primary measure swapped in the output
            ctl = None
            for i, e in enumerate(evs):
                if e["ev"] == "Sort" and len(e["outs"]) == 1 and e["key"] != "time":
                    arr = [x for x in evs if x["tr"] == e["tr"] and x["ev"] == "Arrive"][0]
                    o = list(e["outs"][0])
                    f = {"bytes": ("br", "bs"), "packets": ("pr", "ps")}[e["key"]]

                    def prim(ix):
                        rr = arr["rows"][ix - 1]
                        return rr[f[0]] if e["dir"] == "in" else rr[f[1]] if e["dir"] == "out" else rr[f[0]] + rr[f[1]]
                    if prim(o[0]) != prim(o[-1]):
                        o[0], o[-1] = o[-1], o[0]
                        ctl = [dict(arr, tr=-1), dict(e, tr=-1, outs=[o]),
                               {"tr": -1, "ev": "Deliver", "rows": [], "key": "", "dir": "", "asc": True, "outs": [], "nshuf": 0, "n": 0, "out": []}]
                        break
            vlib.require(ctl is not None, "no trace event suitable for the negative control")
            allines = tl + [json.dumps(e, separators=(",", ":")) for e in ctl]
            t = vlib.tlc("results", "SortingTrace", "SortingTrace.cfg", workers=1,
                         files={"trace.ndjson": "\n".join(allines) + "\n"}, scratch=sc, timeout=2400, heap="12g")
            if t.error or t.violation:
                raise vlib.MachineryError("SortingTrace did not consume the trace: %s %s\n%s" % (t.error, t.violation, t.stdout[-2500:]))
            run.add_tlc(t, "SortingTrace")
            mm = [m for m in t.mismatches if isinstance(m, dict)]
            vlib.require(any(m.get("tr") == -1 and m.get("rule") == "order" for m in mm),
                         "negative control: corrupted trace event was accepted by TLC")
            run.cov["negative_control"] = "forward: reversed unique admissible output rejected; trace: swapped rows of different " \
                                          "primary measure rejected"
            nsort = sum(1 for e in evs if e["ev"] == "Sort")
            run.count(sum(e["nshuf"] for e in evs if e["ev"] == "Sort") + nsort)
            run.cov["trace_events"] = len(tl)
            run.cov["trace_multisets"] = nsort
            run.cov["trace_multisets_above_12_rows"] = sum(1 for e in evs if e["ev"] == "Arrive" and len(e["rows"]) > 12)
            run.cov["trace_multisets_through_time_binning"] = sum(1 for e in evs if e["ev"] == "Sort" and e.get("via") == "BinTime")
            run.cov["arrival_orders_per_multiset"] = shuf
            run.cov["traces_validated_against_impl"] += nsort
            run.sample({"kind": "trace event", "event": {k: v for k, v in next(e for e in evs if e["ev"] == "Sort").items()
                                                         if k in ("ev", "key", "dir", "asc", "outs", "nshuf")}})
            seen_tr = set()
            for m in mm:
                tr = m.get("tr")
                if tr == -1 or tr in seen_tr:
                    continue
                seen_tr.add(tr)
                es = [e for e in evs if e["tr"] == tr]
                arr = [e for e in es if e["ev"] == "Arrive"][0]
                desc = {"binding": "B", "path": "bintime" if any(e.get("via") == "BinTime" for e in es) else "sort", "rule": m.get("rule")}
                if desc["rule"] in ("determinism", "limit", "permutation"):
                    desc["cls"] = classify(arr["rows"])
                if desc["rule"] == "order":
                    desc["asc"] = m.get("cfg", {}).get("asc")
                report(desc, {"kind": "sort-trace", "cmd": cmd, "model": m, "events": es})
    for desc, replay, n in found.values():
        replay["cases_with_this_descriptor"] = n
        run.violation(desc, replay)
    run.cov["rule"] = ("F: all well-formed multisets of <=4 rows of a 10-row universe x 18 sort configurations (3 keys, 4 directions, "
                       "asc/desc; time with one direction), every permutation sorted; distinct = (multiset, configuration) cases with a "
                       "tie in the primary measure (more than one admissible output); distributed path on the multisets with pairwise "
                       "different keys; B: %d seeded multisets of up to %d rows x %d arrival orders" % (ncases, maxrows, shuf))
    run.assumptions += ["time labels are compared as instants: rows that differ only in the zone of the label are the same row",
                        "multisets with two rows equal in all labels and attributes but different counters are outside the statement",
                        "one shared *time.Location per zone in direct sorts (most favourable); JSON transport in the distributed path",
                        "time-labelled results are requested ascending only through the query API (Args cannot ask for descending time)",
                        "descriptor field cls characterises the input multiset (contains rows differing only in host id / equal instants "
                        "in different zones with another label differing), not the code path"]
    return run.finish()


def replay(path):
    d = json.load(open(path))["replay"]
    vh = vlib.build_vh("results")
    if d["kind"] in ("sort-replay", "dist-replay"):
        args = [d["kind"]] + (["-reps", str(max(64, d.get("reps", 24)))] if d["kind"] == "dist-replay" else [])
        rc, outs, _ = vlib.run_vh(vh, args, stdin_lines=[json.dumps(d["behaviour"])])
        bad = [o for o in outs if o.get("ok") is False]
        print(json.dumps(bad or outs, indent=1)[:4000])
        return 1 if bad else 0
    print("re-run: " + d.get("cmd", "./check C14"))
    return 2
