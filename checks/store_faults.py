"""Shared driver of C04 (kill at every file-system call) and C05 (error at every file-system call)."""
import json
import os

import vlib
from checks import store_exp as sx

FAULTABLE = {"mkdirat", "openat", "lseek", "write", "close", "fchmodat", "renameat"}


def classify(x, v):
    """abstract descriptor of a deviating Observe verdict"""
    if v["reader_ok"] and v["query_ok"] and v["list_ok"]:
        return None
    if v["nometa_day"]:
        return {"kind": "nometa-day"}
    if v["reader_ok"] and v["query_ok"] and not v["list_ok"] and v["stale"] and v["conf_list"]:
        return {"kind": "stale-suffix"}
    return {"kind": "observe-mismatch", "reader_ok": v["reader_ok"], "query_ok": v["query_ok"], "list_ok": v["list_ok"],
            "mode": x.desc["mode"], "call": x.desc["call"],
            "file": "column" if (x.desc["file"] or "").endswith(".gpf") else (x.desc["file"] or "")[:9]}


def run_enumeration(run, mode, configs, per_session_limit=None, torn=False):
    """configs: list of (hist, enc, profile, seed, errnos). Returns number of experiments."""
    vh = vlib.build_vh("store")
    if not sx.strace_ok():
        raise vlib.MachineryError("strace/ptrace not available in this sandbox: the crash/fault experiments cannot run")
    total = 0
    with vlib.Scratch("verif-%s-" % run.prop.lower()) as sc:
        for ci, (hist, enc, profile, seed, errnos) in enumerate(configs):
            base = os.path.join(sc, "cfg%d" % ci)
            os.makedirs(base)
            states, recorded, points = sx.prepare_states(vh, base, hist, seed, enc, profile)
            jobs = []
            xid = ci * 100000
            # the clean history itself is experiment 0 of the configuration
            jobs.append((vh, base, hist, None, 0, None, "clean", None, seed, enc, profile, xid, recorded))
            for s_idx in range(len(hist) - 1):          # the last session is the recovery write-out
                pts = points[s_idx]
                if mode == "fault":
                    pts = [p for p in pts if p["raw"] in FAULTABLE]
                if per_session_limit and len(pts) > per_session_limit:
                    step = len(pts) / float(per_session_limit)
                    pts = [pts[int(i * step)] for i in range(per_session_limit)]
                for p in pts:
                    for errno in (errnos if mode == "fault" else [None]):
                        xid += 1
                        jobs.append((vh, base, hist, states[s_idx], s_idx, p, mode, errno, seed, enc, profile, xid, recorded))
                    if mode == "kill" and torn and p.get("torn"):
                        n = len(p["torn"]["data"])
                        for k in sorted({1, n // 2, n - 1} - {0, n}):
                            xid += 1
                            jobs.append((vh, base, hist, states[s_idx], s_idx, dict(p, dbroot=""), "torn", k, seed, enc, profile, xid, recorded))
            xs = sx.parallel(sx.run_experiment, jobs)
            # a killed child's events must be a prefix of the recorded session (deterministic child); an
            # experiment for which this does not hold even after its repetitions is given up, never judged
            for x in xs:
                if x.error or x.desc["mode"] not in ("kill",):
                    continue
                s_idx = x.desc["session"]
                pre = sum(len(recorded[k]) for k in range(s_idx)) + 1
                got = [e for e in x.events[pre:] if e["ev"] not in ("Observe",)]
                cut = next((i for i, e in enumerate(got) if e["ev"] == "Crash"), len(got))
                if got[:cut] != recorded[s_idx][:cut]:
                    k = next((i for i in range(cut) if i >= len(recorded[s_idx]) or got[i] != recorded[s_idx][i]), cut)
                    x.error = "killed child's calls are not a prefix of the recording: at %d got %s, recorded %s" % (
                        k, got[k:k + 2], recorded[s_idx][k:k + 2])
            bad = [x for x in xs if x.error]
            vlib.require(len(bad) <= max(2, len(xs) // 20), "too many failed experiments: %s" % [b.error for b in bad[:3]])
            run.cov["experiments_given_up"] = run.cov.get("experiments_given_up", 0) + len(bad)
            verdicts, drift = sx.validate(run, xs, sc, "%s-%d" % (mode, ci))
            total += len(xs)
            run.count(len(xs))
            run.cov["injections_not_hitting_a_modelled_call"] = run.cov.get("injections_not_hitting_a_modelled_call", 0) + \
                sum(1 for x in xs if not x.error and not x.fired)
            for x in xs:
                if x.error:
                    continue
                run.distinct((ci, x.desc["mode"], x.desc["session"], x.desc["raw"], x.desc["when"], x.desc["errno"]))
                if x.xid in drift:
                    # the code left the model (an action the specification does not have was taken): the
                    # observations are judged by the property statement directly instead of being skipped
                    run.drift.append({"experiment": x.desc, "at": drift[x.xid]})
                    for d, why in direct_oracle(x):
                        run.violation(d, {"experiment": x.desc, "why": why, "drift_at": drift[x.xid]})
                    continue
                vs = verdicts.get(x.xid, [])
                expect_obs = sum(1 for e in x.events if e["ev"] == "Observe")
                vlib.require(len(vs) == expect_obs, "missing verdicts for experiment %s" % x.desc)
                run.cov["traces_validated_against_impl"] += 1
                for v in vs:
                    d = classify(x, v)
                    if d:
                        run.violation(d, {"experiment": x.desc, "verdict": v,
                                          "how": "./check %s --replay <this file>" % run.prop})
                    if not (v["conf_reader"] and v["conf_list"]):
                        run.drift.append({"experiment": x.desc, "conformance": v})
                    if v["reader_ok"] != (v["model_readable"] and v["conf_reader"]) and not v["nometa_day"]:
                        run.note("model fidelity: reader_ok=%s but model_readable=%s (%s)" % (v["reader_ok"], v["model_readable"], x.desc))
                if mode == "fault":
                    judge_fault(run, x)
            if xs and len(run.cov["samples"]) < 3:
                k = xs[len(xs) // 2]
                run.sample({"experiment": k.desc, "events": [e["ev"] for e in k.events][:70]})
    return total


def direct_oracle(x):
    """Property-level judgement of an experiment without the model state (used when trace validation
    rejected the experiment): every Observe must show exactly the blocks of the sessions that returned
    ok, plus - all or nothing - the blocks of sessions that were interrupted or returned an error."""
    out = []
    sure, maybe = [], []
    cur = None
    fcol = "column" if (x.desc["file"] or "").endswith(".gpf") else ("month-dir" if (x.desc["file"] or "").isdigit() and len(x.desc["file"]) <= 2 else (x.desc["file"] or "")[:9])
    sidx = -1
    for e in x.events:
        if e["ev"] == "W_Begin":
            cur = list(e["bs"])
            sidx += 1
        elif e["ev"] == "W_Return":
            (sure if e["res"] == "ok" else maybe).append(cur or [])
            if e["res"] != "ok" and x.desc["mode"] != "clean" and sidx > x.desc["session"]:
                # a write-out AFTER the interrupted / faulted one (nothing is injected into it) must succeed
                out.append(({"mode": x.desc["mode"], "call": x.desc["call"], "file": fcol, "kind": "later-writeout-fails"},
                            "the write-out of blocks %s after the interrupted one returned an error: %s" % (cur, e.get("msg", "")[:200])))
            cur = None
        elif e["ev"] == "Crash":
            if cur is not None:
                maybe.append(cur)
            cur = None
        elif e["ev"] == "Observe":
            base = {"mode": x.desc["mode"], "call": x.desc["call"], "file": fcol}
            if len(e.get("dir_names", [])) > 1:
                out.append((dict(base, kind="duplicate-day-dir"), "more than one directory for the same day: %s" % e["dir_names"]))
                continue
            want = sorted(i for s_ in sure for i in s_)
            # the state of the known finding "day directory without metadata" (first write-out of a day
            # interrupted / failed before its commit point): an un-suffixed day directory whose
            # .blockmeta does not exist, and every error observed is the failure to read that file
            errs = [e[k] for k in ("reader_err", "query_err", "list_err") if e[k]]
            nometa = (any(n.isdigit() for n in e.get("dir_names", [])) and errs and
                      all("error reading metadata file" in m for m in errs) and
                      any("no such file or directory" in m for m in errs))     # (messages are cut at 300 characters)
            if nometa:
                out.append(({"kind": "nometa-day"}, "day directory without metadata: %s" % errs[0][:200]))
                continue
            for name, ids, err in (("reader", [b["id"] for b in e["reader"]], e["reader_err"]),
                                   ("query", [b["id"] for b in e["query"]], e["query_err"]),
                                   ("list", e["list_ids"], e["list_err"])):
                ok = err == "" and all(i in ids for i in want)
                extra = [i for i in ids if i not in want]
                for m in maybe:
                    if all(i in extra for i in m):
                        extra = [i for i in extra if i not in m]
                if extra or not ok or (name != "list" and not all(b["ok"] for b in e[name])):
                    out.append((dict(base, kind="direct-oracle-mismatch", what=name), "%s shows %s, expected %s (+ optionally %s), err=%r" % (name, ids, want, maybe, err)))
            if not e["meta_ok"] or not e["list_ok"]:
                out.append((dict(base, kind="direct-oracle-mismatch", what="summaries"), "block metadata / listing totals inconsistent"))
    return out


def judge_fault(run, x):
    """C05: a failed file-system call makes the write report an error; an error is only reported
    when the session did not commit."""
    s_idx = x.desc["session"]
    ids = x.desc["ids"]
    evs = x.events
    # locate the faulted session: first W_Begin with these ids after the prefix
    start = next((i for i, e in enumerate(evs) if e["ev"] == "W_Begin" and e["bs"] == ids), None)
    if start is None:
        return
    seg = []
    for e in evs[start:]:
        seg.append(e)
        if e["ev"] == "Observe":
            break
    fault = any(e["ev"] == "Fault" for e in seg)
    ret = next((e for e in seg if e["ev"] == "W_Return"), None)
    obs = seg[-1] if seg and seg[-1]["ev"] == "Observe" else None
    if not fault:
        return          # the injected call was not one the writer depends on / injection did not fire
    if ret is None or ret["res"] != "err":
        run.violation({"kind": "fault-swallowed", "call": x.desc["call"],
                       "file": "column" if (x.desc["file"] or "").endswith(".gpf") else (x.desc["file"] or "")[:9]},
                      {"experiment": x.desc, "return": ret})
    elif obs is not None and obs["reader_err"] == "" and all(i in [b["id"] for b in obs["reader"]] for i in ids):
        run.violation({"kind": "error-after-commit", "at": next(e["at"] for e in seg if e["ev"] == "Fault")},
                      {"experiment": x.desc, "return": ret, "observed_blocks": [b["id"] for b in obs["reader"]]})
