"""C20 - captured traffic is fully accounted for across write-outs.

M  FlowLogMC: flow log + written blocks explored exhaustively for 3 conversations (IPv4 TCP to a common
   port from two client ports, IPv6 UDP with the response first, ICMP echo) in both directions plus an
   unparseable packet, up to 4-5 packets and 2-3 rotations at every position: Conservation,
   OneRecordPerConversationPerInterval, NoSportInDb, NoIdleRows, BlockIsInterval.
F  FlowLogGen: every Packet/Rotate sequence of depth 4 over 8 packets (exhaustive; quick tier: a seeded
   sample) and simulated sequences (depth 40 / 200 over 24 packets: both IP versions, TCP/UDP/ICMP/ESP/GRE,
   both directions, handshakes, multicast, fragments, truncated) are executed end to end: scripted source
   -> real Capture -> Manager.performWriteout at the model's rotation points -> real GoDB write-out
   handler -> database on disk -> time resolved raw query.  Compared after every step: the capture's flow
   log (packets), the rows handed to the write-out and every stored block as queried (rotations), the
   live view of what is still in memory (end).
"""
import collections
import hashlib
import json
import threading

import vlib

MANIFEST = {
    "level": "model_checking",
    "technique": "TLA+ spec FlowLog: TLC exhaustive + TLC-generated packet/rotation schedules executed end to end "
                 "(scripted source, real capture, real write-out handler, real DB, real query)",
    "text": "FlowLog.tla states conservation, one record per conversation and interval, source ports aggregated away and no idle "
            "rows as invariants of the flow log and the written blocks; TLC checks them exhaustively on small constants, and every "
            "TLC behaviour is executed on the real pipeline with the flow log compared after each packet and each stored block "
            "(as the query engine returns it) compared after each rotation.",
    "note": "Trusts the scripted source, the harness' projection (address book, query row grouping by block timestamp), TLC and the "
            "link-by-name access to Manager.performWriteout; the orientation of flows follows the rules verified by C19/C22; empty "
            "blocks are not observable through the query and not judged.",
    "ref": "6.6",
}

MC_CFG = """SPECIFICATION Spec
CONSTANTS
  Pkts <- MCPkts
  MaxPkts = %d
  MaxRot = %d
INVARIANTS Conservation OneRecordPerConversationPerInterval NoSportInDb NoIdleRows
PROPERTIES BlockIsInterval
CONSTRAINT Bound
VIEW View
CHECK_DEADLOCK FALSE
"""

SIM_CFG = """SPECIFICATION GenSpec
CONSTANTS
  Pkts <- GenPktsAll
  Depth = %d
CHECK_DEADLOCK FALSE
"""


def _par(jobs):
    res = [None] * len(jobs)
    errs = []

    def go(i, f):
        try:
            res[i] = f()
        except Exception as e:  # noqa
            errs.append(e)
    ts = [threading.Thread(target=go, args=(i, f)) for i, f in enumerate(jobs)]
    for t in ts:
        t.start()
    for t in ts:
        t.join()
    if errs:
        raise errs[0]
    return res


def shape(b):
    return " ".join("R" if s["act"]["name"] == "Rotate" else s["act"].get("how", "?")[0:3] + str(s["act"]["p"]["ver"]) for s in b)


def pick(behs, seed, k):
    """deterministic sample of k behaviours"""
    if len(behs) <= k:
        return list(behs)
    keyed = sorted(range(len(behs)), key=lambda i: hashlib.sha1(("%d/%d" % (seed, i)).encode()).hexdigest())
    return [behs[i] for i in sorted(keyed[:k])]


def replay_behaviours(vh, behs, seed, sc, label):
    rc, outs, _ = vlib.run_vh(vh, ["flowlog-replay", "-seed", str(seed), "-workers", "4", "-dir", sc],
                              stdin_lines=[json.dumps(b, separators=(",", ":")) for b in behs], timeout=3000)
    summ = [o for o in outs if o.get("summary")]
    vlib.require(summ and summ[0]["behaviours"] == len(behs), "%s: replay did not process all behaviours" % label)
    return summ[0], [o for o in outs if o.get("ok") is False]


def main():
    run = vlib.Run("C20", "model_checking")
    thorough = run.tier == "thorough"
    vh = vlib.build_vh("flowlog")
    with vlib.Scratch("verif-c20-") as sc:
        # ---- M
        for mp, mr in ([(5, 2), (4, 3)] if thorough else [(4, 2)]):
            r = vlib.tlc("flowlog", "FlowLogMC", {"cfg_text": MC_CFG % (mp, mr)}, coverage=True, scratch=sc, timeout=1800, workers=6)
            vlib.expect_tlc_ok(r, "FlowLogMC")
            if r.violation:
                raise vlib.MachineryError("FlowLog design violates %s (spec error, not a code verdict)\n%s" % (r.violation, "\n".join(r.cex[:40])))
            for a in ("Account", "Ignore", "Rotate"):
                vlib.require(r.coverage.get(a, (0, 0))[0] > 0, "vacuous: action %s never taken" % a)
            run.add_tlc(r, "FlowLogMC %d packets %d rotations" % (mp, mr))

        # ---- F: exhaustive depth 4 (sampled in the quick tier) + simulated long schedules
        g = vlib.tlc("flowlog", "FlowLogGen", "FlowLogGen4.cfg", scratch=sc, timeout=900, workers=6)
        vlib.expect_tlc_ok(g, "FlowLogGen4")
        vlib.require(len(g.traces) == 9 ** 4, "generator did not enumerate all %d behaviours of depth 4 (%d)" % (9 ** 4, len(g.traces)))
        run.add_tlc(g, "FlowLogGen4")
        allb = sorted(g.traces, key=lambda b: json.dumps([s["act"] for s in b], sort_keys=True))   # TLC prints in worker order
        behs = allb if thorough else pick(allb, run.seed, 700)
        depth, nsim = (200, 60) if thorough else (40, 24)
        # simulation is only reproducible with one TLC worker: four single-worker runs with derived seeds
        sims = _par([lambda i=i: vlib.tlc("flowlog", "FlowLogGen", {"cfg_text": SIM_CFG % depth}, workers=1, simulate=nsim // 4,
                                         depth=depth + 5, seed=run.seed * 10 + i, scratch=sc, timeout=1500) for i in range(4)])
        nsimgot = 0
        for g2 in sims:
            vlib.expect_tlc_ok(g2, "FlowLogGenSim")
            run.add_tlc(g2, "FlowLogGenSim")
            nsimgot += len(g2.traces)
            behs += g2.traces
        vlib.require(nsimgot >= nsim // 2, "simulation produced too few behaviours (%d)" % nsimgot)
        rots = sum(1 for b in behs for s in b if s["act"]["name"] == "Rotate")
        vlib.require(rots > 50, "too few rotations in the generated behaviours")
        summ, bad = replay_behaviours(vh, behs, run.seed, sc, "F")
        # a time-out of the harness' waits on a busy machine must not become a verdict: run those again
        again = [o for o in bad if o["desc"].get("cls") == "stuck"]
        if again:
            _, bad_again = replay_behaviours(vh, [o["behaviour"] for o in again], run.seed, sc, "F (stuck behaviours again)")
            still = set(json.dumps(o["behaviour"], sort_keys=True) for o in bad_again)
            bad = [o for o in bad if o["desc"].get("cls") != "stuck" or json.dumps(o["behaviour"], sort_keys=True) in still]
            run.note("%d behaviour(s) timed out in the first pass, %d again when run alone" % (len(again), len(bad_again)))
        run.count(summ["steps"])
        run.cov["traces_validated_against_impl"] += len(behs)
        run.cov["rotations_executed"] = summ["rotations"]
        run.cov["behaviours_depth4_enumerated"] = len(g.traces)
        run.cov["behaviours_executed"] = len(behs)
        run.cov["longest_behaviour"] = max(len(b) for b in behs)
        for b in behs:
            run.distinct(shape(b))
        mid = behs[len(behs) // 3]
        run.sample({"kind": "forward replay behaviour", "shape": shape(mid), "final": mid[-1]["exp"]})
        groups = collections.OrderedDict()
        for o in bad:
            groups.setdefault(json.dumps(o["desc"], sort_keys=True), []).append(o)
        for k, os_ in groups.items():
            o = min(os_, key=lambda x: len(x["behaviour"]))
            run.violation(o["desc"], {"kind": "flowlog-replay", "seed": run.seed, "behaviour": o["behaviour"], "step": o["step"],
                                      "msg": o["msg"][:3000], "failing_behaviours_with_this_descriptor": len(os_)})
        run.cov["failing_behaviours"] = len(bad)

        # ---- negative control: one counter of an expected stored block changed
        badids = set(json.dumps(o["behaviour"], sort_keys=True) for o in bad)
        ctl = None
        for b in behs:
            if json.dumps(b, sort_keys=True) in badids:
                continue
            idx = [i for i, s in enumerate(b) if s["act"]["name"] == "Rotate" and s["exp"]["block"]]
            if idx:
                ctl = json.loads(json.dumps(b))
                ctl[idx[0]]["exp"]["block"][0]["c"]["bs"] += 1
                break
        vlib.require(ctl is not None, "no passing behaviour with a non-empty block for the negative control")
        s2, bad2 = replay_behaviours(vh, [ctl], run.seed, sc, "negative control")
        vlib.require(len(bad2) == 1 and bad2[0]["desc"].get("cls") in ("handed-rows", "stored-block"),
                     "negative control: a corrupted expected block was accepted")
        run.cov["negative_control"] = "bytes-sent of one expected stored row +1: rejected (%s)" % bad2[0]["desc"].get("cls")
    run.cov["rule"] = ("F: all 6561 Packet/Rotate sequences of depth 4 over 8 packets (quick: seeded sample of 700) plus simulated "
                       "sequences of depth %d over 24 packets; distinct = distinct sequences of (lookup outcome, IP version | rotation)" % depth)
    run.assumptions += ["one interface; write-outs at the model's rotation points with timestamps Day0+300*i in one day",
                        "the flow orientation rule is the one of spec/packet (C19/C22), copied into FlowRule.tla",
                        "flows whose counters are zero (kept one interval for orientation) are not compared",
                        "database encoders lz4 / null / zstd alternate per behaviour"]
    return run.finish()


def replay(path):
    d = json.load(open(path))["replay"]
    vh = vlib.build_vh("flowlog")
    with vlib.Scratch("verif-c20-") as sc:
        rc, outs, _ = vlib.run_vh(vh, ["flowlog-replay", "-seed", str(d["seed"]), "-workers", "1", "-dir", sc],
                                  stdin_lines=[json.dumps(d["behaviour"])])
    bad = [o for o in outs if o.get("ok") is False]
    for o in bad:
        o.pop("behaviour", None)
    print(json.dumps(bad or outs, indent=1)[:4000])
    return 1 if bad else 0
