"""C07 - every compressor restores exactly the bytes it was given.

M  EncoderMC: all op sequences of <= 4 calls on one encoder instance over the full shape space (9 data classes x 5
   scratch shapes x context history x level changes): RoundTrip, OneFramePerCall, ReportedLen, HistoryIndependent,
   CtxLazy hold for the documented design; the appending design (ScratchMode = "append") must violate them.
F  EncoderGen: every op sequence of depth 2 over the full shape space, every sequence of depth 3 (quick) / 4
   (thorough) over a reduced shape space and simulated deeper ones are executed on the real encoders for every
   encoder type x level x build configuration (cgo, CGO_ENABLED=0, thorough also goprobe_noliblz4 /
   goprobe_nolibzstd); after every step the projected writer content (what the emitted bytes decode to with an
   independent decoder), the returned count and the restored data are compared with the specification.
B  EncoderTrace: seeded long op sequences (lengths 0 .. 512 KiB, arbitrary scratch length / capacity, all levels) on
   real instances are logged and validated by TLC against Encoder.
"""
import concurrent.futures
import json
import os
import resource
import time

import vlib

MANIFEST = {
    "level": "exploration",
    "technique": "TLA+ spec Encoder: TLC exhaustive over op sequences x scratch shapes x size classes + TLC-generated sequences "
                 "replayed on every encoder type x level x build + TLC trace validation of seeded long runs",
    "text": "Encoder.tla states that one Compress call hands exactly one frame Enc(data) to the writer, reports its length, and "
            "that Dec(Enc(data)) = data independent of scratch buffer shape, context history and level changes. TLC checks the "
            "design exhaustively (depth 4), every generated op sequence is executed on the real lz4/zstd/null encoders of the cgo "
            "and the pure-Go builds for every level with seeded bytes of each class and compared after every step, and long seeded "
            "runs with arbitrary lengths/scratch sizes are accepted by TLC as behaviours of the specification.",
    "note": "Byte contents inside a size class are seeded samples (random, repetitive, flow-column shaped, bit-packed); the shape "
            "space (scratch x size class x context history x level change) is enumerated by TLC. Third-party codec internals are "
            "observed, not modelled.",
    "ref": "6.2",
}

BUILDS = {
    "cgo": dict(cgo=True, tags=("verif",), lz4="cgo", zstd="cgo"),
    "nocgo": dict(cgo=False, tags=("verif",), lz4="native", zstd="native"),
    "noliblz4": dict(cgo=True, tags=("verif", "goprobe_noliblz4"), lz4="native", zstd="cgo"),
    "nolibzstd": dict(cgo=True, tags=("verif", "goprobe_nolibzstd"), lz4="cgo", zstd="native"),
}
WORKERS = max(2, min(vlib.NCPU - 2, 12))
CHUNK = 400


def build(name):
    """Build vh_codec for a build configuration and verify that the binary is what its name says."""
    b = BUILDS[name]
    vh = vlib.build_vh("codec", cgo=b["cgo"], tags=b["tags"])
    rc, outs, _ = vlib.run_vh(vh, ["codec-info"])
    info = outs[0] if outs else {}
    vlib.require(info.get("lz4") == b["lz4"] and info.get("zstd") == b["zstd"] and info.get("zstd_reflect") == b["zstd"]
                 and info.get("cgo") == b["cgo"],
                 "build %s does not have the expected encoder implementations: %s" % (name, info))
    return vh


class Phases:
    """Wall clock and CPU (of child processes: TLC, harness) per phase of a check, recorded in the evidence."""

    def __init__(self, run):
        self.run, self.t, self.c, self.name = run, time.time(), self._cpu(), None
        run.cov["phases"] = []

    @staticmethod
    def _cpu():
        r = resource.getrusage(resource.RUSAGE_CHILDREN)
        return r.ru_utime + r.ru_stime

    def mark(self, name):
        now, cpu = time.time(), self._cpu()
        self.run.cov["phases"].append({"phase": name, "wall_s": round(now - self.t, 1), "cpu_s": round(cpu - self.c, 1)})
        self.t, self.c = now, cpu


def parallel(fn, items, workers=WORKERS):
    with concurrent.futures.ThreadPoolExecutor(max_workers=workers) as ex:
        return list(ex.map(lambda it: fn(*it), items))


def level_grid(typ, thorough, native=False):
    """(l0, la, lb): configured level and the levels SetLevel("A"/"B") switches to.

    The pure-Go zstd maps levels onto four encoders (<3, 3..5, 6..9, >=10) and creating its largest one costs ~70 ms per
    instance: its grid is sampled at the class boundaries instead of every level."""
    if typ == "null":
        return [(-1, 1, 2)]
    if typ == "lz4":
        lv = list(range(0, 13)) if thorough else [0, 1, 3, 6, 9, 10, 12]
    elif native:
        lv = [1, 2, 3, 5, 6, 9, 10, 19] if thorough else [1, 3, 19]
    else:
        lv = list(range(1, 20)) if thorough else [1, 3, 6, 10, 19]
    g = [(-1, lv[0], lv[-1])]
    for i, l in enumerate(lv):
        g.append((l, lv[(i + 1) % len(lv)], lv[(i + len(lv) // 2) % len(lv)]))
    return g


def canon(traces):
    """TLC prints behaviours in a worker-dependent order: sort, so that indices (which seed the bytes) are stable."""
    return sorted(json.dumps(b, separators=(",", ":"), sort_keys=True) for b in traces)


def gen_behaviours(run, sc, thorough):
    sets = {}
    g = vlib.tlc("codec", "EncoderGen", "EncoderGenFull.cfg", scratch=sc, timeout=900)
    vlib.expect_tlc_ok(g, "EncoderGenFull")
    vlib.require(len(g.traces) > 2000, "generator (full, depth 2) produced too few behaviours: %d" % len(g.traces))
    run.add_tlc(g, "EncoderGenFull depth 2")
    sets["full2"] = canon(g.traces)
    d = 4 if thorough else 3
    g = vlib.tlc("codec", "EncoderGen", "EncoderGenSmall.cfg", scratch=sc, timeout=1200, consts="CONSTANT Depth = %d" % d)
    vlib.expect_tlc_ok(g, "EncoderGenSmall")
    vlib.require(len(g.traces) > 2000, "generator (reduced, depth %d) produced too few behaviours: %d" % (d, len(g.traces)))
    run.add_tlc(g, "EncoderGenSmall depth %d" % d)
    sets["small%d" % d] = canon(g.traces)
    nsim, dsim = (2000, 8) if thorough else (240, 6)
    g = vlib.tlc("codec", "EncoderGen", "EncoderGenFull.cfg", scratch=sc, timeout=900, workers=4, simulate=nsim // 4,
                 depth=dsim + 4, seed=run.seed, consts="CONSTANT Depth = %d" % dsim)
    vlib.expect_tlc_ok(g, "EncoderGenSim")
    vlib.require(len(g.traces) >= nsim // 2, "simulation produced too few behaviours: %d" % len(g.traces))
    sets["sim%d" % dsim] = canon(g.traces)
    return sets


def is_core(line):
    """Depth-2 sequences that carry the first-order information: Compress;Decompress, Compress;Close, SetLevel;Compress."""
    names = [st["act"]["name"] for st in json.loads(line)]
    return names in (["Compress", "Decompress"], ["Compress", "Close"], ["SetLevel", "Compress"])


def replay_tasks(run, sets, builds, thorough):
    """One task = (build, type, level config, behaviour set, first index, behaviours).

    core2   depth-2 sequences Compress;Decompress / Compress;Close / SetLevel;Compress over the full shape space
            (9 data classes x 5 scratch shapes x decompress shapes x level switches): EVERY level of the grid
    rest2   all other depth-2 sequences over the full shape space: levels rotate per chunk of 100 and with the seed
            (quick: one level per chunk, lz4/null/pure-Go zstd every second chunk; thorough: four levels per chunk)
    deeper  (reduced shape space depth 3/4, simulated full shape space): one level per chunk, rotating; quick: every type
            takes every second chunk (pure-Go zstd every fourth); thorough: zstd/cgo every second chunk, zstd/native every sixth, stateless types every
            fourth; the tag builds only replay the simulated set
    """
    plan = {}
    for sname, lines in sets.items():
        if sname == "full2":
            plan["core2"] = ([ln for ln in lines if is_core(ln)], 75, "all")
            plan["rest2"] = ([ln for ln in lines if not is_core(ln)], 100, "rot")
        else:
            plan[sname] = (lines, 100 if not thorough else 200, "deep")
    tasks = []
    for sname, (lines, csize, mode) in plan.items():
        chunks = [(i, lines[i:i + csize]) for i in range(0, len(lines), csize)]
        for bname in builds:
            for ti, typ in enumerate(("lz4", "zstd", "null")):
                # the tag builds differ from cgo only in one encoder: replay that one
                if bname == "noliblz4" and typ != "lz4" or bname == "nolibzstd" and typ != "zstd":
                    continue
                native_zstd = typ == "zstd" and BUILDS[bname]["zstd"] == "native"
                grid = level_grid(typ, thorough, native_zstd)
                for ci, (base, chunk) in enumerate(chunks):
                    rot = ci + run.seed
                    if mode == "all":
                        cfgs = grid if bname in ("cgo", "nocgo") else grid[rot % 3::3]
                    elif mode == "rot":
                        k = (2 if native_zstd else 4) if thorough and bname in ("cgo", "nocgo") else 1
                        cfgs = [grid[(rot * k + j) % len(grid)] for j in range(min(k, len(grid)))]
                        if not thorough and (typ != "zstd" or native_zstd) and (rot + ti) % 2:
                            cfgs = []      # quick: the stateless types and the (expensive to instantiate) pure-Go zstd
                            #                take every second chunk of the pair sequences
                    else:
                        if thorough:
                            every = 2 if typ == "zstd" and not native_zstd else 6 if native_zstd else 4
                        else:
                            every = 4 if native_zstd else 2
                        cfgs = [grid[(rot // every) % len(grid)]] if (rot + ti) % every == 0 else []
                        if bname not in ("cgo", "nocgo") and not sname.startswith("sim"):
                            cfgs = []      # the tag builds share the encoder code with cgo / nocgo: no deep enumeration
                    for cfg in cfgs:
                        tasks.append((bname, typ, cfg, sname, base, chunk))
    # expensive tasks first: native zstd instances are costly to create, high levels of the C libraries are slow
    tasks.sort(key=lambda t: -(len(t[5]) * (3 if t[1] == "zstd" else 1) * (1 + max(t[2][0], 0))))
    return tasks


CRASH_MARKS = ("signal arrived during cgo execution", "SIGSEGV", "SIGABRT", "SIGBUS", "fatal error:", "unexpected signal")


def crashed(rc, err):
    return rc != 0 and any(m in err for m in CRASH_MARKS)


def crash_desc(binding, typ, impl, act):
    d = {"binding": binding, "type": typ, "impl": impl, "op": act.get("name"), "field": "crash"}
    if act.get("name") == "Compress":
        d["data"] = act.get("d")
        d["scratch_nonempty"] = act.get("s") in ("lenNcapBig", "lenNcapSmall")
    return d


def run_replay(vhs, seed, task, sc, corrupt=None):
    """Replay one chunk. A crash of the harness process inside the code under test (a SIGSEGV in a C library cannot
    be recovered in-process) is attributed to the step noted in the crash log, reported as a failing step, and the
    replay resumes with the next behaviour."""
    bname, typ, (l0, la, lb), sname, base, chunk = task
    clog = os.path.join(sc, "crash-%s-%s-%s-%s-%d-%d.json" % (bname, typ, l0, sname, base, os.getpid()))
    outs_all = []
    tot = {"behaviours": 0, "steps": 0, "failed": 0, "compress": 0, "decompress": 0, "bytes_in": 0, "crashes": 0}
    lines, b0 = chunk, base
    while lines:
        args = ["codec-replay", "-type", typ, "-l0", str(l0), "-la", str(la), "-lb", str(lb), "-seed", str(seed), "-base", str(b0)]
        if corrupt is not None:
            args += ["-corrupt", str(corrupt)]
        if os.path.exists(clog):
            os.remove(clog)
        rc, outs, err = vlib.run_vh(vhs[bname], args, stdin_lines=lines, timeout=1500, check=False,
                                    env_extra={"GOMAXPROCS": "1", "VERIF_CRASHLOG": clog})
        summ = [o for o in outs if o.get("summary")]
        if rc == 0:
            vlib.require(summ and summ[0]["behaviours"] == len(lines), "codec-replay did not process all behaviours (%s %s)" % (bname, typ))
            outs_all += [o for o in outs if not o.get("summary")]
            for k in ("behaviours", "steps", "failed", "compress", "decompress", "bytes_in"):
                tot[k] += summ[0][k]
            break
        if not crashed(rc, err) or not os.path.exists(clog):
            raise vlib.MachineryError("harness codec-replay %s/%s failed rc=%s\nstderr: %s" % (bname, typ, rc, err[-3000:]))
        c = json.load(open(clog))
        idx = c["index"]
        vlib.require(b0 <= idx < b0 + len(lines), "crash log names behaviour %d outside the chunk" % idx)
        outs_all += [o for o in outs if not o.get("summary")]
        impl = BUILDS[bname][typ] if typ in ("lz4", "zstd") else "go"
        sig = next((m for m in CRASH_MARKS[1:4] if m in err), "fatal")
        outs_all.append({"id": idx, "ok": False, "step": c["step"], "desc": crash_desc("F", typ, impl, c["act"]),
                         "msg": "the process crashed (%s) inside %s at level %s: %s" % (sig, c["act"].get("name"), c["level"], err[:300]),
                         "detail": dict(c.get("info") or {}, level=c["level"]),
                         "cfg": {"type": typ, "l0": l0, "la": la, "lb": lb, "seed": seed, "index": idx},
                         "behaviour": json.loads(lines[idx - b0])})
        cnt = c.get("counters", {})
        tot["behaviours"] += idx - b0 + 1
        tot["steps"] += cnt.get("steps", 0) + 1
        tot["failed"] += cnt.get("failed", 0) + 1
        for k in ("compress", "decompress", "bytes_in"):
            tot[k] += cnt.get(k, 0)
        tot["crashes"] += 1
        lines, b0 = lines[idx - b0 + 1:], idx + 1
    return task, outs_all, tot


def desc_key(d):
    return json.dumps(d, sort_keys=True)


def main():
    run = vlib.Run("C07", "exploration")
    thorough = run.tier == "thorough"
    bnames = ["cgo", "nocgo"] + (["noliblz4", "nolibzstd"] if thorough else [])
    ph = Phases(run)
    vhs = {b: build(b) for b in bnames}
    ph.mark("build")
    with vlib.Scratch("verif-c07-") as sc:
        # ---- M
        r = vlib.tlc("codec", "EncoderMC", "EncoderMC.cfg", coverage=True, scratch=sc, timeout=900, consts="CONSTANT MaxOps = 4")
        vlib.expect_tlc_ok(r, "EncoderMC")
        if r.violation:
            raise vlib.MachineryError("Encoder design violates %s (specification error, not a verdict)" % r.violation)
        for a in ("MCCompress", "MCDecompress", "MCSetLevel", "MCClose"):
            vlib.require(r.coverage.get(a, (0, 0))[0] > 0, "vacuous: action %s never taken" % a)
        run.add_tlc(r, "EncoderMC depth 4")
        n = vlib.tlc("codec", "EncoderMC", "EncoderMCNeg.cfg", scratch=sc, timeout=300)
        vlib.require(n.violation in ("RoundTrip", "OneFramePerCall"),
                     "negative control: the appending design was not rejected by the model (%s)" % (n.violation or n.error))
        run.cov["negative_control_model"] = 'ScratchMode="append" violates %s' % n.violation

        ph.mark("M")
        # ---- F
        sets = gen_behaviours(run, sc, thorough)
        ph.mark("F generate")
        tasks = replay_tasks(run, sets, bnames, thorough)
        results = parallel(lambda *t: run_replay(vhs, run.seed, t, sc), tasks)
        ph.mark("F replay (%d tasks)" % len(tasks))
        fails = {}      # descriptor -> [count, first failure]
        drift = {}
        per_cfg = {}
        steps = 0
        for task, outs, summ in results:
            bname, typ, cfg, sname, base, chunk = task
            steps += summ["steps"]
            k = "%s/%s" % (bname, typ)
            pc = per_cfg.setdefault(k, {"behaviours": 0, "steps": 0, "compress_calls": 0, "decompress_calls": 0, "bytes_in": 0,
                                        "failed": 0, "process_crashes": 0, "levels": set()})
            pc["process_crashes"] += summ["crashes"]
            pc["behaviours"] += summ["behaviours"]
            pc["steps"] += summ["steps"]
            pc["compress_calls"] += summ["compress"]
            pc["decompress_calls"] += summ["decompress"]
            pc["bytes_in"] += summ["bytes_in"]
            pc["failed"] += summ["failed"]
            pc["levels"].add(cfg[0])
            run.cov["traces_validated_against_impl"] += summ["behaviours"]
            for o in outs:
                if o.get("ok") is False:
                    d = dict(o["desc"])
                    e = fails.setdefault(desc_key(d), [0, d, None])
                    e[0] += 1
                    if e[2] is None:
                        e[2] = {"kind": "codec-replay", "build": bname, "cfg": o["cfg"], "step": o["step"], "msg": o["msg"][:1500],
                                "detail": o.get("detail"), "behaviour": o["behaviour"]}
                elif o.get("drift"):
                    dk = "%s/%s: %s" % (bname, typ, o["msg"])
                    drift[dk] = drift.get(dk, 0) + 1
        run.count(steps)
        for k, pc in per_cfg.items():
            pc["levels"] = sorted(pc["levels"])
        run.cov["replay"] = per_cfg
        run.cov["behaviour_sets"] = {k: len(v) for k, v in sets.items()}
        for lines in sets.values():
            for ln in lines:
                run.distinct(json.dumps([s["act"] for s in json.loads(ln)], sort_keys=True))
        mid = json.loads(sets["full2"][len(sets["full2"]) // 2])
        run.sample({"kind": "forward replay behaviour", "steps": [s["act"] for s in mid]})
        for key, (cnt, d, rep) in sorted(fails.items()):
            rep["occurrences"] = cnt
            run.violation(d, rep)
        for dk, cnt in drift.items():
            run.drift.append({"what": dk, "behaviours": cnt})

        # negative control of the replay: a corrupted expectation must be rejected
        t0 = ("cgo", "lz4", (-1, 1, 9), "full2", 0, [ln for ln in sets["full2"] if '"empty"' not in ln][:40])
        _, outs, summ = run_replay(vhs, run.seed, t0, sc, corrupt=17)
        bad = [o for o in outs if o.get("ok") is False]
        clean_before = not any(d["type"] == "lz4" and d["impl"] == "cgo" for _, d, _ in fails.values())
        if clean_before:
            vlib.require(len(bad) == 1 and bad[0]["id"] == 17, "negative control: corrupted expectation was not rejected (F)")
            run.cov["negative_control_replay"] = "behaviour 17 with corrupted expected frame rejected, 39 others accepted"
        else:
            vlib.require(any(o["id"] == 17 for o in bad), "negative control: corrupted expectation was not rejected (F)")
            run.cov["negative_control_replay"] = "behaviour 17 with corrupted expected frame rejected"

        ph.mark("F negative control")
        # ---- B
        ntr, nops = (40, 120) if thorough else (8, 50)
        dtasks = [(b, t) for b in bnames for t in ("lz4", "zstd", "null")
                  if not (b == "noliblz4" and t != "lz4" or b == "nolibzstd" and t != "zstd")]

        dcrashes = []

        def drive(b, t):
            lo, hi = {"lz4": (0, 12), "zstd": (1, 19), "null": (0, 1)}[t]
            clog = os.path.join(sc, "crash-drive-%s-%s.json" % (b, t))
            evs, first = [], 0
            while first < ntr:
                if os.path.exists(clog):
                    os.remove(clog)
                rc, outs, err = vlib.run_vh(vhs[b], ["codec-drive", "-type", t, "-seed", str(run.seed), "-traces", str(ntr), "-ops", str(nops),
                                                     "-minlevel", str(lo), "-maxlevel", str(hi), "-first", str(first)], timeout=1500,
                                            check=False, env_extra={"GOMAXPROCS": "1", "VERIF_CRASHLOG": clog})
                vlib.require(all("_raw" not in o for o in outs), "codec-drive printed garbage")
                evs += outs
                if rc == 0:
                    break
                if not crashed(rc, err) or not os.path.exists(clog):
                    raise vlib.MachineryError("harness codec-drive %s/%s failed rc=%s\nstderr: %s" % (b, t, rc, err[-3000:]))
                c = json.load(open(clog))
                dcrashes.append((b, t, c, err[:300]))
                first = c["index"] + 1
            for o in evs:
                o["build"] = b
            return evs
        events = [e for outs in parallel(drive, dtasks) for e in outs]
        vlib.require(len(events) > 100, "driver produced no events")
        ph.mark("B drive")
        tfile = os.path.join(sc, "trace.ndjson")
        with open(tfile, "w") as fh:
            fh.write("\n".join(json.dumps(e, separators=(",", ":")) for e in events) + "\n")
        t = vlib.tlc("codec", "EncoderTrace", "EncoderTrace.cfg", workers=1, files={"trace.ndjson": tfile}, scratch=sc,
                     timeout=1500, heap="8g")
        if t.error or t.violation:
            raise vlib.MachineryError("EncoderTrace: %s %s\n%s" % (t.error, t.violation, t.stdout[-2000:]))
        run.add_tlc(t, "EncoderTrace")
        run.count(len(events))
        ninst = sum(1 for e in events if e["ev"] == "Reset")
        comp = [e for e in events if e["ev"] == "Compress"]
        run.cov["trace_events"] = len(events)
        run.cov["trace_instances"] = ninst
        run.cov["trace_max_input_len"] = max(e["data_len"] for e in comp)
        run.cov["trace_compress_with_nonempty_scratch"] = sum(1 for e in comp if e["scratch_len"] > 0)
        run.cov["trace_input_bytes"] = sum(e["data_len"] for e in comp)
        run.sample({"kind": "implementation trace event", "event": comp[len(comp) // 3]})
        bad_inst = set()
        bfails = {}
        for b, t_, c, err in dcrashes:
            bad_inst.add((b, t_, c["index"]))
            impl = BUILDS[b][t_] if t_ in ("lz4", "zstd") else "go"
            d = crash_desc("B", t_, impl, c["act"])
            if c["act"].get("name") == "Compress":
                n_ = (c.get("info") or {}).get("data_len", -1)
                d["data"] = "empty" if n_ == 0 else "b1" if n_ == 1 else "other"
                d["scratch_nonempty"] = (c.get("info") or {}).get("scratch_len", 0) > 0
            x = bfails.setdefault(desc_key(d), [0, d, {"kind": "codec-trace", "build": b, "crash": c, "stderr": err,
                                                       "cmd": "vh_codec codec-drive -type %s -seed %d -traces %d -ops %d -first %d" % (t_, run.seed, ntr, nops, c["index"])}])
            x[0] += 1
        for mm in t.mismatches:
            e = events[mm["line"] - 1]
            inst = (e["build"], e["type"], e["tr"])
            if inst in bad_inst:
                continue            # only the first mismatch of an instance is independent evidence
            bad_inst.add(inst)
            if mm["frame_ok"] and mm["ret_ok"]:
                run.drift.append({"what": "%s/%s contexts alive: %s, specification %s" % (e["build"], e["type"], e["ctx"], mm["model_ctx"])})
                continue
            d = {"binding": "B", "type": e["type"], "impl": e["impl"], "op": e["ev"],
                 "field": "frames" if not mm["frame_ok"] else "ret"}
            if e["ev"] == "Compress":
                d["data"] = e["d"]
                d["scratch_nonempty"] = e["scratch_len"] > 0
            x = bfails.setdefault(desc_key(d), [0, d, {"kind": "codec-trace", "build": e["build"], "event": e, "model": mm,
                                                       "cmd": "vh_codec codec-drive -type %s -seed %d -traces %d -ops %d" % (e["type"], run.seed, ntr, nops)}])
            x[0] += 1
        run.cov["traces_validated_against_impl"] += ninst - len(bad_inst)
        for key, (cnt, d, rep) in sorted(bfails.items()):
            rep["occurrences"] = cnt
            run.violation(d, rep)
        # negative control of the trace specification: one corrupted observable must be reported
        okline = next(i for i, e in enumerate(events) if e["ev"] == "Compress" and e["build"] == "cgo" and e["type"] == "lz4"
                      and e["n_ok"] and e["frame"] != "error")
        badev = list(events)
        badev[okline] = dict(badev[okline], n_ok=False)
        nt = vlib.tlc("codec", "EncoderTrace", "EncoderTrace.cfg", workers=1, scratch=sc, timeout=1500, heap="8g",
                      files={"trace.ndjson": "\n".join(json.dumps(e, separators=(",", ":")) for e in badev) + "\n"})
        vlib.require(any(mm.get("line") == okline + 1 for mm in nt.mismatches), "negative control: corrupted trace event was accepted (B)")
        run.cov["negative_control_trace"] = "event %d with corrupted returned count rejected" % (okline + 1)
        ph.mark("B validate + negative control")

    run.cov["rule"] = ("F: every op sequence of depth 2 over 9 data classes x 5 scratch shapes x 2 decompress shapes x level changes x Close "
                       "on every type x build; Compress;Decompress / Compress;Close / SetLevel;Compress on every level of the grid "
                       "(lz4 default,%s; zstd cgo default,%s; zstd native default and the boundaries of its four level classes), the others on "
                       "levels rotating per chunk of 100; every sequence of depth %d "
                       "over 3 data classes x 3 scratch shapes and simulated deeper ones over the full shape space with rotating "
                       "levels; distinct = distinct op sequences. B: seeded instances with lengths 0..512 KiB and arbitrary scratch "
                       "len/cap" % ("0..12" if thorough else "0,1,3,6,9,10,12", "1..19" if thorough else "1,3,6,10,19", 4 if thorough else 3))
    run.assumptions += ["byte contents of a data class are seeded samples (random / repeated pattern / low entropy / port column / "
                        "bit-packed counters / address column / constant / mixed)",
                        "Decompress is given a source that behaves like *os.File (full reads, zero-length read returns 0,nil) and "
                        "buffers of exactly the frame / raw length, as the interface demands",
                        "an encoder is not used after Close; SetLevel is only required not to break the round trip "
                        "(whether a new level takes effect on an existing context is outside the statement)",
                        "builds goprobe_noliblz4 / goprobe_nolibzstd (thorough) are replayed for the encoder they switch"]
    return run.finish()


def replay(path):
    d = json.load(open(path))["replay"]
    if d.get("kind") == "codec-replay":
        vh = build(d["build"])
        c = d["cfg"]
        rc, outs, err = vlib.run_vh(vh, ["codec-replay", "-type", c["type"], "-l0", str(c["l0"]), "-la", str(c["la"]), "-lb", str(c["lb"]),
                                         "-seed", str(c["seed"]), "-base", str(c["index"])],
                                    stdin_lines=[json.dumps(d["behaviour"], separators=(",", ":"))], check=False)
        if crashed(rc, err):
            print("the harness process crashed inside the code under test:\n" + err[:1200])
            return 1
        if rc != 0:
            raise vlib.MachineryError("codec-replay failed rc=%s: %s" % (rc, err[-2000:]))
        bad = [o for o in outs if o.get("ok") is False]
        for o in bad:
            o.pop("behaviour", None)
        print(json.dumps(bad or outs, indent=1)[:3000])
        return 1 if bad else 0
    print(json.dumps(d, indent=1)[:3000])
    print("re-run: " + d.get("cmd", "./check C07"))
    return 2
