"""C18 - the flow hash map behaves as a map with additive updates.

M  FlowMapMC: the design (ordinary map + additive merge) explored exhaustively; conservation and
   merge commutativity hold.
F  FlowMapGen: every behaviour of depth 3 over 3 keys (exhaustive) and simulated behaviours of depth
   60 over 8 keys are executed on pkg/types/hashmap; Len, Get(all keys), full iteration compared with
   the model state after every step; keys are passed through one mutable caller buffer.
B  FlowMapTrace: long seeded runs (hundreds to thousands of keys, so every growth stage is crossed and
   iteration/merge happen mid-growth) are logged and validated by TLC against FlowMap.
"""
import json
import os
import vlib

MANIFEST = {
    "level": "model_checking",
    "technique": "TLA+ spec FlowMap: TLC exhaustive + TLC-generated behaviours replayed on hashmap + TLC trace validation of seeded runs",
    "text": "FlowMap.tla is an ordinary additive map by construction; TLC checks its algebra exhaustively, every TLC behaviour "
            "(depth 3 exhaustive, depth 60 simulated) is replayed on the real map with Len/Get/full iteration compared after "
            "every step, and long implementation traces (hundreds to thousands of keys, iteration and merge while growing) are "
            "accepted by TLC as behaviours of the spec.",
    "note": "Trusts the harness' key concretisation/projection and TLC; key bytes and counters are sampled from the seed, sizes bounded "
            "by the driver (quick 600 keys, thorough 3000).",
    "ref": "6.5",
}


def main():
    run = vlib.Run("C18", "model_checking")
    thorough = run.tier == "thorough"
    vh = vlib.build_vh("flowmap")
    with vlib.Scratch("verif-c18-") as sc:
        # ---- M
        r = vlib.tlc("flowmap", "FlowMapMC", "FlowMapMC.cfg", coverage=True, scratch=sc, timeout=900,
                     consts="CONSTANT MaxCount = %d" % (8 if thorough else 6))
        vlib.expect_tlc_ok(r, "FlowMapMC")
        if r.violation:
            raise vlib.MachineryError("FlowMap design violates %s (spec error, not a code verdict)" % r.violation)
        for a in ("Set", "SetOrUpdate", "SrcSetOrUpdate", "Merge", "Clear", "NewMap"):
            vlib.require(r.coverage.get(a, (0, 0))[0] > 0, "vacuous: action %s never taken" % a)
        run.add_tlc(r, "FlowMapMC")

        # ---- F: exhaustive depth-3 + simulated behaviours
        behs = []
        g = vlib.tlc("flowmap", "FlowMapGen", "FlowMapGen3.cfg", scratch=sc, timeout=600)
        vlib.expect_tlc_ok(g, "FlowMapGen3")
        vlib.require(len(g.traces) > 1000, "generator produced too few behaviours")
        behs += g.traces
        run.add_tlc(g, "FlowMapGen3")
        nsim = 400 if thorough else 60
        g2 = vlib.tlc("flowmap", "FlowMapGen", "FlowMapGenSim.cfg", workers=4, simulate=nsim // 4, depth=70,
                      seed=run.seed, scratch=sc, timeout=900)
        vlib.expect_tlc_ok(g2, "FlowMapGenSim")
        behs += g2.traces
        if thorough:
            g3 = vlib.tlc("flowmap", "FlowMapGen", "FlowMapGen3.cfg", scratch=sc, timeout=1800,
                          consts="CONSTANT Depth = 4")
            vlib.expect_tlc_ok(g3, "FlowMapGen4")
            behs += g3.traces
        rc, outs, _ = vlib.run_vh(vh, ["flowmap-replay", "-seed", str(run.seed)],
                                  stdin_lines=[json.dumps(b, separators=(",", ":")) for b in behs], timeout=1800)
        summ = [o for o in outs if o.get("summary")]
        vlib.require(summ and summ[0]["behaviours"] == len(behs), "replay did not process all behaviours")
        run.count(summ[0]["steps"])
        run.cov["traces_validated_against_impl"] += len(behs)
        for b in behs:
            run.distinct(json.dumps([s["act"] for s in b], sort_keys=True))
        run.sample({"kind": "forward replay behaviour", "steps": [s["act"] for s in behs[len(behs) // 2]][:6]})
        for o in outs:
            if o.get("ok") is False:
                run.violation({"binding": "F", "act": o.get("act")},
                              {"kind": "flowmap-replay", "seed": run.seed, "behaviour": o.get("behaviour"),
                               "step": o.get("step"), "msg": o.get("msg", "")[:2000]})

        # ---- B: implementation traces validated by TLC
        traces, ops, keys = (24, 6000, 3000) if thorough else (6, 3000, 600)
        tfile = os.path.join(sc, "trace.ndjson")
        with open(tfile, "w") as fh:
            import subprocess
            p = subprocess.run([vh, "flowmap-drive", "-seed", str(run.seed), "-traces", str(traces), "-ops", str(ops),
                                "-keys", str(keys)], stdout=fh, stderr=subprocess.PIPE, text=True)
        if p.returncode != 0:
            if "panic" in p.stderr:
                run.violation({"binding": "B", "panic": True}, {"kind": "flowmap-drive", "seed": run.seed,
                                                                 "stderr": p.stderr[-3000:]})
            else:
                raise vlib.MachineryError("flowmap-drive failed: " + p.stderr[-2000:])
        else:
            lines = open(tfile).read().splitlines()
            t = vlib.tlc("flowmap", "FlowMapTrace", "FlowMapTrace.cfg", workers=1, files={"trace.ndjson": tfile},
                         scratch=sc, timeout=3000, heap="12g")
            if t.error:
                raise vlib.MachineryError("FlowMapTrace: %s\n%s" % (t.error, t.stdout[-2000:]))
            run.add_tlc(t, "FlowMapTrace")
            run.count(len(lines))
            run.cov["traces_validated_against_impl"] += traces
            maxlen = max(json.loads(x)["mlen"] for x in lines)
            fulls = sum(1 for x in lines if '"full":true' in x)
            run.cov["trace_events"] = len(lines)
            run.cov["max_map_len_in_traces"] = maxlen
            run.cov["full_iterations_checked"] = fulls
            run.cov["full_iterations_while_growing"] = sum(1 for x in lines if '"full":true' in x and '"grow":1' in x)
            run.cov["merges_into_or_from_growing_map"] = sum(1 for x in lines if '"ev":"Merge"' in x and '"grow":0' not in x)
            vlib.require(run.cov["full_iterations_while_growing"] > 0, "driver never iterated a growing map")
            run.sample({"kind": "implementation trace event", "event": json.loads(lines[len(lines) // 3])})
            if t.violation:
                mm = t.mismatches[0] if t.mismatches else {}
                ln = mm.get("line", 0)
                run.violation({"binding": "B", "ev": mm.get("ev")},
                              {"kind": "flowmap-trace", "seed": run.seed, "model": mm,
                               "event": json.loads(lines[ln - 1]) if 0 < ln <= len(lines) else None,
                               "cmd": "vh flowmap-drive -seed %d -traces %d -ops %d -keys %d" % (run.seed, traces, ops, keys)})
            else:
                # negative control: the trace spec must reject a corrupted observable
                bad = list(lines)
                i = len(bad) // 2
                e = json.loads(bad[i]); e["mlen"] += 1; bad[i] = json.dumps(e)
                n = vlib.tlc("flowmap", "FlowMapTrace", "FlowMapTrace.cfg", workers=1,
                             files={"trace.ndjson": "\n".join(bad) + "\n"}, scratch=sc, timeout=3000, heap="12g")
                vlib.require(n.violation is not None, "negative control: corrupted trace was accepted")
                run.cov["negative_control"] = "corrupted Len at event %d rejected" % (i + 1)
    run.cov["rule"] = ("F: all action sequences of depth 3 (4 thorough) over 3 keys x 2 deltas plus simulated depth-60 "
                       "sequences over 8 keys, distinct = distinct action sequences; B: seeded drivers with up to %d keys" % keys)
    run.assumptions += ["key bytes are drawn deterministically from the seed (lengths 11/19/35/43, a third share a long prefix)",
                        "Clear/ClearFast are destructors (map not written afterwards) - modelled as such",
                        "counters stay below 2^31 in traces (TLC integers)"]
    return run.finish()


def replay(path):
    d = json.load(open(path))["replay"]
    vh = vlib.build_vh("flowmap")
    if d["kind"] == "flowmap-replay":
        rc, outs, _ = vlib.run_vh(vh, ["flowmap-replay", "-seed", str(d["seed"])],
                                  stdin_lines=[json.dumps(d["behaviour"])])
        bad = [o for o in outs if o.get("ok") is False]
        print(json.dumps(bad or outs, indent=1)[:3000])
        return 1 if bad else 0
    print("re-run: " + d.get("cmd", "./check C18"))
    return 2
