"""C04 - a crash during a write-out leaves the database consistent and queryable.

M  GPStoreMC_C04: Crash enabled in every writer state, all histories of <= 3 blocks in sessions of 1-2 blocks,
   invariants Consistent / AlwaysReadable / ListingAgreesKF, action properties AppendOnly / ReturnAgrees.
B  fault_enumeration on the real code: for a history of write sessions the real DBWriter runs in a child under
   strace and is killed (SIGKILL on syscall entry) at EVERY file-system call of every session; afterwards the
   real block reader, query engine and interface listing observe the database, the remaining write-outs run,
   and everything (system calls -> GPStore actions, observations) is validated by TLC against GPStore.
"""
import json
import os

import vlib
from checks import store_faults as sf

MANIFEST = {
    "level": "fault_enumeration",
    "technique": "TLA+ spec GPStore (TLC exhaustive over crash points) + SIGKILL at every file-system call of the real writer (strace), "
                 "system-call traces and reader/query/listing observations validated by TLC against the spec",
    "text": "Every file-system call of every write session of a history is a crash point that is actually exercised on the real "
            "writer; after each crash the real reader, query engine and listing are compared by TLC with the model's committed "
            "blocks, then further write-outs are run and compared again. TLC also explores all crash points of the model exhaustively.",
    "note": "Crash = SIGKILL between system calls; the thorough tier adds torn column writes (prefix of one write() reaches the file); page cache assumed durable (process crash, "
            "not power loss); one interface, one day; strace/ptrace required.",
    "ref": "6.1 C04",
}


def main():
    run = vlib.Run("C04", "fault_enumeration")
    thorough = run.tier == "thorough"
    with vlib.Scratch("verif-c04m-") as sc:
        r = vlib.tlc("store", "GPStoreMC", "GPStoreMC_C04.cfg", coverage=True, scratch=sc, timeout=1500,
                     consts=None if thorough else "CONSTANT MaxBlocks = 2")
        vlib.expect_tlc_ok(r, "GPStoreMC_C04")
        if r.violation:
            raise vlib.MachineryError("GPStore (crash config) violates %s on the model; the model must be corrected or the "
                                      "deviation registered before the check can judge the code" % r.violation)
        vlib.require(r.coverage.get("MCCrash", (0, 0))[0] > 0, "vacuous: Crash never taken")
        run.add_tlc(r, "GPStoreMC_C04")
    s = run.seed
    if thorough:
        configs = [([[1], [2, 3], [4], [5]], "lz4", "m", s, None), ([[1, 2], [3], [4, 5], [6]], "zstd", "l", s + 1, None),
                   ([[1], [2], [3]], "null", "m", s + 2, None), ([[2], [3, 4], [5]], "lz4", "s", s + 3, None)]
        lim = None
    else:
        configs = [([[1], [2, 3], [4]], "lz4", "m", s, None)]
        lim = None
    n = sf.run_enumeration(run, "kill", configs, per_session_limit=lim, torn=thorough)
    run.cov["rule"] = ("one experiment per (history, session, file-system call): SIGKILL on entry of that call; distinct = distinct "
                       "(config, session, syscall name, ordinal); each experiment also runs the remaining write-outs")
    run.cov["exhaustive"] = True
    run.assumptions += ["crash points are system-call boundaries of the writer's thread", "data survive in the page cache (process kill)"]
    return run.finish()


def replay(path):
    d = json.load(open(path))
    print(json.dumps(d, indent=1)[:4000])
    print("re-run: VERIF_SEED=%s ./check C04" % d["replay"]["experiment"].get("seed", 1))
    return 2
