"""C30 - queries running during write-outs see a consistent snapshot per day.

M  GPStoreMC_C30: one reader interleaved at every system call with a writer doing two write-outs (incl. the first
   of a day): invariants ReaderSnapshot (a finished reader saw a prefix of the committed blocks, intact),
   ReaderNoErrorKF, AlwaysReadable, Consistent.
B  The real writer (goDB.DBWriter) and a real reader run as two goroutines in one process; the verif-tag gate in
   pkg/goDB/storage/gpfile parks each before every file-system operation and the harness' scheduler releases one
   at a time (deterministic interleavings: every "reader inserted atomically after k writer steps", every
   "write-out inserted atomically after j reader steps", plus seeded random schedules). Reader kinds: the GPDir
   block reader (its steps are validated action by action against the model reader) and the whole query engine
   (low-memory and read-all mode; judged by the snapshot property on its rows). TLC validates every executed
   schedule as a behaviour of GPStore and evaluates the reader's verdict.
"""
import json
import os

import vlib
from checks import store_exp as sx

MANIFEST = {
    "level": "model_checking",
    "technique": "TLA+ spec GPStore with a reader process: TLC exhaustive over reader/writer interleavings + real writer and real "
                 "readers stepped through deterministic schedules by a blocking verif-tag gate, executed schedules validated by TLC",
    "text": "All interleavings of one reader with two write-outs are explored on the model at system-call granularity; on the real code "
            "several hundred schedules (every atomic insertion point of the reader into the writer and vice versa, plus seeded random "
            "ones) are executed step by step with the gate hook and each executed schedule is accepted by TLC as a behaviour of the "
            "specification with the reader's result satisfying the snapshot property.",
    "note": "One day, one interface; the GPDir reader's ReadBlockAtIndex is one model step; the query engine's own steps are not "
            "modelled individually (its result is judged by the property); requires the verif build tag hooks.",
    "ref": "6.1 C30",
}


def schedules(tier, seed):
    out = []
    x = 0
    configs = [([[1], [2]], 0, "m"), ([[1], [2, 3]], 1, "m")]
    if tier == "thorough":
        configs += [([[1], [2], [3]], 1, "s"), ([[2], [4]], 0, "l"), ([[1, 2], [3], [4]], 2, "m")]
    for sessions, pre, profile in configs:
        for reader in ("gpdir", "query", "query-lowmem"):
            # upper bound of the number of writer gates (an insertion point beyond the last gate runs the reader
            # after the last write-out: harmless); the bound must include the gates of the LAST session's commit
            wsteps = 48 * sum(1 for _ in sessions) + 10 * sum(len(s) - 1 for s in sessions) + 6
            # (the window between two particular writer gates - e.g. metadata renamed, directory not yet -
            # is a single insertion point: no thinning for the readers that go through the directory walk)
            step = 1 if (tier == "thorough" or reader in ("gpdir", "query")) else 2
            for k in range(0, wsteps, step):
                x += 1
                out.append({"x": x, "sessions": sessions, "pre": pre, "reader": reader, "profile": profile,
                            "policy": {"kind": "insert-reader", "at": k}})
            for j in range(0, 45 if reader == "gpdir" else 30, step):
                x += 1
                out.append({"x": x, "sessions": sessions, "pre": pre, "reader": reader, "profile": profile,
                            "policy": {"kind": "insert-writer", "at": j}})
            for i in range(120 if tier == "thorough" else 25):
                x += 1
                out.append({"x": x, "sessions": sessions, "pre": pre, "reader": reader, "profile": profile,
                            "policy": {"kind": "random", "seed": seed * 7919 + x, "pr": [15, 35, 60][i % 3]}})
    # directed scenario: a second rename between the reader's recovery listing and its second open attempt
    for prof in (["s", "m"] if tier == "thorough" else ["s"]):
        x += 1
        out.append({"x": x, "sessions": [[1], [2], [3]], "pre": 1, "reader": "gpdir", "profile": prof,
                    "policy": {"kind": "script", "script": ["r", "r", "W", "r", "r", "W", "R"]}})
    return out


def classify(v):
    if v["no_error"] and v["snapshot"] and v["intact"]:
        return None
    if not v["no_error"]:
        why = v.get("model_why", "")
        if v["kind"] != "gpdir":
            e = v.get("err", "")
            if "error reading metadata file" in e and (v["nometa_day"] or v.get("nometa_seen")):
                why = "nometa"
            elif v.get("renames_during", 0) >= 2:
                # the engine's readers retry a vanished path exactly once: two renames of the day directory during
                # one query defeat that (same root cause as the GPDir reader's rename-race)
                why = "rename-race"
            elif "error reading metadata file" in e:
                why = "metadata-enoent"
            else:
                why = "other"
        if why == "nometa":
            return {"kind": "nometa-day", "reader": v["kind"]}
        if why == "rename-race":
            return {"kind": "rename-race", "reader": v["kind"]}
        return {"kind": "reader-error", "why": why, "reader": v["kind"]}
    if v["kind"] != "gpdir" and v.get("renames_during", 0) >= 2 and v["intact"]:
        return {"kind": "rename-race", "reader": v["kind"]}      # a block skipped because its column file vanished twice
    return {"kind": "snapshot" if not v["snapshot"] else "damaged", "reader": v["kind"]}


def main():
    run = vlib.Run("C30", "model_checking")
    thorough = run.tier == "thorough"
    vh = vlib.build_vh("store")
    with vlib.Scratch("verif-c30-") as sc:
        r = vlib.tlc("store", "GPStoreMC", "GPStoreMC_C30.cfg", coverage=True, scratch=sc, timeout=2400,
                     consts="CONSTANT MaxBlocks = 3\nCONSTANT ReadAll = FALSE" if thorough else None)
        vlib.expect_tlc_ok(r, "GPStoreMC_C30")
        if r.violation:
            raise vlib.MachineryError("GPStore (reader config) violates %s on the model" % r.violation)
        vlib.require(r.coverage.get("MCReader", (0, 0))[0] > 0, "vacuous: reader never stepped")
        run.add_tlc(r, "GPStoreMC_C30")
        ra = vlib.tlc("store", "GPStoreMC", "GPStoreMC_C30.cfg", scratch=sc, timeout=2400, consts="CONSTANT ReadAll = TRUE")
        vlib.expect_tlc_ok(ra, "GPStoreMC_C30/readall")
        if ra.violation:
            raise vlib.MachineryError("GPStore (reader config, read-all mode) violates %s on the model" % ra.violation)
        run.add_tlc(ra, "GPStoreMC_C30/readall")
        # negative control of the model: without the known-finding exemption the reader error must be found
        n = vlib.tlc("store", "GPStoreMC", "GPStoreMC_C30.cfg", scratch=sc, timeout=600,
                     consts="INVARIANT ReaderNoError")
        vlib.require(n.violation == "ReaderNoError", "negative control: strict reader invariant not violated on the as-built model")

        scheds = schedules(run.tier, run.seed)
        byprof = {}
        for s in scheds:
            byprof.setdefault(s["profile"], []).append(s)
        jobs = []
        for prof, lst in byprof.items():
            nsh = 8
            for k in range(nsh):
                sh = lst[k::nsh]
                if sh:
                    jobs.append((prof, k, sh))

        def one(prof, k, sh):
            root = os.path.join(sc, "sched-%s-%d" % (prof, k))
            os.makedirs(root)
            rc, outs, err = vlib.run_vh(vh, ["store-sched", "-root", root, "-seed", str(run.seed), "-profile", prof, "-enc", "lz4"],
                                        stdin_lines=[json.dumps(s) for s in sh], timeout=1800, check=False)
            return rc, outs, err, sh
        res = sx.parallel(one, jobs, workers=8)
        xs = []
        bydesc = {s["x"]: s for s in scheds}
        for rc, outs, err, sh in res:
            for o in outs:
                if "x" not in o:
                    continue
                if not o.get("ok"):
                    raise vlib.MachineryError("scheduler: schedule %s did not finish: %s" % (bydesc[o["x"]], o.get("why")))
                x = sx.Experiment(o["x"], bydesc[o["x"]])
                x.events = o["events"]
                xs.append(x)
            if rc != 0:
                raise vlib.MachineryError("store-sched failed rc=%s: %s" % (rc, err[-1500:]))
        vlib.require(len(xs) == len(scheds), "scheduler returned %d of %d schedules" % (len(xs), len(scheds)))
        verdicts, drift = sx.validate(run, xs, sc, "sched")
        kinds = {}
        for x in xs:
            run.count(1)
            sig = json.dumps([[e["ev"], e.get("i"), e.get("c")] for e in x.events if e["ev"] not in ("Q_Step",)])
            run.distinct(sig)
            if x.xid in drift:
                run.drift.append({"schedule": x.desc, "at": drift[x.xid]})
                # judge the reader's result directly by the property
                done = [e for e in x.events if e["ev"] == "R_Done"]
                for e in done:
                    if e["err"] or not all(b["ok"] for b in e["res"]):
                        run.violation({"kind": "reader-error-or-damage-unmodelled", "reader": e["kind"]}, {"schedule": x.desc, "result": e})
                continue
            run.cov["traces_validated_against_impl"] += 1
            for v in verdicts.get(x.xid, []):
                if "no_error" not in v:
                    continue
                kinds[v["kind"]] = kinds.get(v["kind"], 0) + 1
                d = classify(v)
                if d:
                    run.violation(d, {"schedule": x.desc, "verdict": v, "events": [e["ev"] for e in x.events]})
                if not v["conf"]:
                    run.drift.append({"schedule": x.desc, "conformance": v})
        run.cov["reader_results_judged"] = kinds
        mid = xs[len(xs) // 3]
        run.sample({"schedule": mid.desc, "executed": [e["ev"] for e in mid.events if e["ev"] != "Q_Step"][:60]})
    run.cov["rule"] = ("schedules: reader inserted atomically after every k-th writer gate, write-outs inserted atomically after every j-th "
                       "reader step, seeded random interleavings; x 3 reader kinds x session histories; distinct = distinct executed "
                       "action sequences")
    run.assumptions += ["only the interleavings of the chosen schedule families are executed on the real code (the model is exhaustive)",
                        "the gate serialises file-system operations of reader and writer (one actor runs at a time)"]
    return run.finish()


def replay(path):
    d = json.load(open(path))
    print(json.dumps(d, indent=1)[:3000])
    return 2
