"""C16 - interface selection matches the requested list and never crashes.

M  IfaceSelMC: the selection rule (listed /\\ existing, or all for `any`, minus negated; regexp = exactly
   the matching names) explored for every list of <= MaxLen tokens over {a,b,zz,any,!a,!b,!zz} x every
   existing subset of {a,b,d} and 14 regexps x every subset of a 6-name universe; soundness, completeness,
   order/repetition/unknown-name independence and regexp exactness are invariants.
F  IfaceSelGen: every such case is printed by TLC with the set the specification selects and executed
   as a real engine.QueryRunner.Run on a real goDB (written with goDB.DBWriter) holding exactly the
   existing interfaces; Result.Summary.Interfaces (as a set) and the interfaces the rows come from
   are compared with the specification; panics are recovered and reported.
"""
import concurrent.futures
import json
import os
import random
import vlib

MANIFEST = {
    "level": "model_checking",
    "technique": "TLA+ spec IfaceSel: TLC exhaustive over all token lists (len<=4, repetitions/negations/any/unknown) x all "
                 "existing sets + regexps with a denotational matcher; every TLC case replayed through engine.QueryRunner.Run "
                 "on real goDB directories",
    "text": "IfaceSel.tla defines the selected set for list and regexp arguments; TLC checks the rule's laws exhaustively and "
            "prints every case with the expected set; each case is executed as a real query against a DB written with the "
            "real writer and Result.Summary.Interfaces / the rows' interfaces are compared as sets; a panic is a violation.",
    "note": "Finite alphabet (3 names + any, negations, 1 unknown name; 14 regexps over 6 names). Behaviour on an empty "
            "selection (error vs empty result) and duplicates inside Summary.Interfaces are not judged. Quick tier runs all length-4 lists with a repeated-and-negated "
            "name and a seeded sample of the others; thorough runs all of them.",
    "ref": "6.3",
}

SHARDS = max(1, min(4, (os.cpu_count() or 2) // 2))


def _arg(act):
    if act["name"] == "QueryRegexp":
        return "/" + act["re"] + "/"
    return ",".join(("!" if t["neg"] else "") + t["name"] for t in act["list"])


def _rep_neg(lst):
    """syntactic: some name is listed at least twice positively and also negated"""
    pos = [t["name"] for t in lst if not t["neg"]]
    neg = {t["name"] for t in lst if t["neg"]}
    return any(pos.count(n) > 1 and n in neg for n in set(pos))


def _replay_cases(vh, sc, cases, tag):
    """run the harness on `cases` (list of behaviours) in SHARDS parallel processes; returns (fails, summary)"""
    shards = [cases[i::SHARDS] for i in range(SHARDS)]

    def one(i):
        if not shards[i]:
            return []
        d = os.path.join(sc, "dbs-%s-%d" % (tag, i))
        os.makedirs(d, exist_ok=True)
        rc, outs, _ = vlib.run_vh(vh, ["ifacesel-replay", "-dir", d],
                                  stdin_lines=[json.dumps(b, separators=(",", ":")) for b in shards[i]], timeout=1500)
        return outs

    with concurrent.futures.ThreadPoolExecutor(SHARDS) as ex:
        res = list(ex.map(one, range(SHARDS)))
    fails, summ = [], {}
    for outs in res:
        for o in outs:
            if o.get("summary"):
                for k, v in o.items():
                    if isinstance(v, int) and not isinstance(v, bool):
                        summ[k] = summ.get(k, 0) + v
            elif o.get("ok") is False:
                fails.append(o)
            elif "_raw" in o:
                raise vlib.MachineryError("ifacesel-replay printed garbage: %s" % o["_raw"][:300])
    return fails, summ


def main():
    run = vlib.Run("C16", "model_checking")
    thorough = run.tier == "thorough"
    vh = vlib.build_vh("ifacesel")
    with vlib.Scratch("verif-c16-") as sc:
        # ---- M: the rule and its laws, exhaustively
        r = vlib.tlc("ifacesel", "IfaceSelMC", "IfaceSelMC.cfg", coverage=True, scratch=sc, timeout=600,
                     consts="CONSTANT MaxLen = %d" % (4 if thorough else 3))
        vlib.expect_tlc_ok(r, "IfaceSelMC")
        if r.violation:
            raise vlib.MachineryError("IfaceSel rule violates %s (spec error, not a code verdict)" % r.violation)
        for a in ("MCList", "MCRegexp"):
            vlib.require(r.coverage.get(a, (0, 0))[0] > 0, "vacuous: action %s never taken" % a)
        run.add_tlc(r, "IfaceSelMC")

        # ---- F: every case of the bounded model on the real engine
        g = vlib.tlc("ifacesel", "IfaceSelGen", "IfaceSelGen.cfg", scratch=sc, timeout=600)
        vlib.expect_tlc_ok(g, "IfaceSelGen")
        cases = g.traces
        vlib.require(len(cases) == 8 * (1 + 7 + 49 + 343 + 2401) + 14 * 64, "generator produced %d cases" % len(cases))
        run.add_tlc(g, "IfaceSelGen")
        short = [b for b in cases if b[0]["act"]["name"] == "QueryRegexp" or len(b[0]["act"]["list"]) <= 3]
        long4 = [b for b in cases if b[0]["act"]["name"] == "QueryList" and len(b[0]["act"]["list"]) == 4]
        long4.sort(key=lambda b: json.dumps(b, sort_keys=True))
        if not thorough:
            # quick: the stratum the statement singles out (a name repeated AND negated) completely,
            # the rest of the length-4 lists as a seeded sample
            strat = [b for b in long4 if _rep_neg(b[0]["act"]["list"])]
            rest = [b for b in long4 if not _rep_neg(b[0]["act"]["list"])]
            rng = random.Random(run.seed)
            long4 = strat + rng.sample(rest, 500)
        todo = short + long4
        nonempty = sum(1 for b in todo if b[0]["exp"])
        vlib.require(nonempty > len(todo) // 4, "too few cases with a non-empty selection")
        fails, summ = _replay_cases(vh, sc, todo, "f")
        vlib.require(summ.get("behaviours") == len(todo), "replay did not process all cases (%s of %d)" %
                     (summ.get("behaviours"), len(todo)))
        run.count(summ["steps"])
        run.cov["traces_validated_against_impl"] += len(todo)
        for b in todo:
            a = b[0]["act"]
            run.distinct(_arg(a) + "|" + "+".join(a["existing"]))
        run.cov["cases"] = {k: summ.get(k, 0) for k in ("judged_nonempty", "empty_selection", "error_on_empty_selection",
                                                         "duplicates_in_summary", "panics", "databases")}
        run.cov["exhaustive_len4"] = thorough
        mid = todo[len(todo) // 2][0]
        run.sample({"kind": "TLC case", "arg": _arg(mid["act"]), "existing": mid["act"]["existing"], "expected": mid["exp"]})
        re_case = [b for b in todo if b[0]["act"]["name"] == "QueryRegexp" and b[0]["exp"]][7][0]
        run.sample({"kind": "TLC case", "arg": _arg(re_case["act"]), "existing": re_case["act"]["existing"],
                    "expected": re_case["exp"]})

        # one violation per abstract descriptor, smallest argument first
        groups = {}
        for o in fails:
            groups.setdefault(json.dumps(o["desc"], sort_keys=True), []).append(o)
        for key in sorted(groups):
            os_ = sorted(groups[key], key=lambda o: (len(o["arg"]), o["arg"], o["existing"]))
            first = os_[0]
            run.violation(first["desc"],
                          {"kind": "ifacesel-replay", "cases": len(os_), "arg": first["arg"], "existing": first["existing"],
                           "expected": first["exp"], "got": first["got"], "msg": first["msg"][:1500],
                           "behaviour": first["behaviour"],
                           "more": [{"arg": o["arg"], "existing": o["existing"], "expected": o["exp"], "got": o["got"]}
                                    for o in os_[1:8]]})

        # ---- negative control: corrupted expectations must be rejected by the binding
        failing_ids = {json.dumps(o["behaviour"], sort_keys=True) for o in fails}
        good = [b for b in todo if b[0]["exp"] and json.dumps(b, sort_keys=True) not in failing_ids]
        rng = random.Random(1000 + run.seed)
        picks = rng.sample(good, 12)
        bad = []
        for i, b in enumerate(picks):
            c = json.loads(json.dumps(b))
            if i % 2 == 0:
                c[0]["exp"] = c[0]["exp"][1:]                      # one selected interface missing from exp
            else:
                other = [n for n in c[0]["act"]["existing"] if n not in c[0]["exp"]]
                c[0]["exp"] = c[0]["exp"] + (other[:1] or ["zz"])  # one unselected interface added to exp
            bad.append(c)
        nfails, nsumm = _replay_cases(vh, sc, bad, "neg")
        vlib.require(len(nfails) == len(bad), "negative control: %d of %d corrupted cases were accepted" %
                     (len(bad) - len(nfails), len(bad)))
        run.cov["negative_control"] = "%d cases with a corrupted expected set all rejected" % len(bad)

    run.cov["rule"] = ("distinct = distinct (argument text, existing set) pairs executed on the engine: all lists of length "
                       "<=3 over {a,b,zz,any,!a,!b,!zz} x all existing subsets of {a,b,d}, 14 regexps x 64 existing sets, "
                       "and %s lists of length 4" % ("all" if thorough else "all 1680 repeated-and-negated + 500 seed-sampled other"))
    run.assumptions += ["Summary.Interfaces is compared as a set (duplicates such as `a,a` -> [a a] are counted, not judged)",
                        "an empty selection may yield an error or an empty result (not specified, not judged)",
                        "regexp semantics are specified for literals, ., [..], *, |, ^, $ only (the 14 enumerated patterns)",
                        "every interface directory holds one block with one flow inside the queried time range"]
    return run.finish(exhaustive=thorough)


def replay(path):
    d = json.load(open(path))["replay"]
    vh = vlib.build_vh("ifacesel")
    with vlib.Scratch("verif-c16-replay-") as sc:
        rc, outs, _ = vlib.run_vh(vh, ["ifacesel-replay", "-dir", sc], stdin_lines=[json.dumps(d["behaviour"])])
    bad = [o for o in outs if o.get("ok") is False]
    for o in bad:
        o.pop("behaviour", None)
    print(json.dumps(bad or outs, indent=1)[:3000])
    return 1 if bad else 0
