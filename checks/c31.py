"""C31 - the query concurrency limit is never exceeded and never leaks.

M  SemaphoreMC: every interleaving of a burst of 4 queries on N = 1 and N = 2 slots with failing,
   unpreparable and cancelled queries; never more than N queries hold a slot, every held slot belongs to
   exactly one executing query, a query is answered "too many requests" iff it was turned away (and only
   while all slots are taken), and in every quiescent state all slots are free.  A variant whose failure
   path skips the release must violate NoLeak (the invariants are not vacuous).
F  SemaphoreGen: all behaviours a sequential scheduler can enforce (urgent internal steps, FIFO hand-over)
   for (N, queries) = (1,2) (1,3) (2,3) exhaustively, sampled ones for 4 and 5 queries; each behaviour is
   replayed step by step against BOTH runners - engine.QueryRunner (live queries held inside their slot at
   the capture source stub of a real capture.Manager) and the distributed QueryRunner (held in the
   Querier stub).  The harness owns the semaphore channel: after every stable step len(sem) and the
   whereabouts / answer of every query are compared with the model; after quiescence N fresh queries must
   hold all N slots simultaneously and return normally.
"""
import json
import os
import random
import vlib

MANIFEST = {
    "level": "model_checking",
    "technique": "TLA+ spec Semaphore: TLC exhaustive (N<=2, 4 queries) + TLC-generated behaviours replayed step by step on "
                 "engine.QueryRunner and the distributed QueryRunner with a harness-owned semaphore channel",
    "text": "Semaphore.tla models acquisition with timeout, failure, cancellation and the deferred release; TLC checks the limit, "
            "the slot accounting, 'rejected <=> too many requests' and 'quiescent => all slots free' on every interleaving. "
            "Every TLC behaviour of the schedulable sub-model is executed on both query runners with queries held inside "
            "their slot at a gate (capture source stub / querier stub); len(sem), each query's state and status are compared "
            "with the model after every stable step, and N fresh queries must run concurrently afterwards.",
    "note": "Real time enters through the acquisition timeout (keep-alive): every query that the behaviour turns away gets its own "
            "timeout so that the timers expire in the order of the behaviour, 150 ms (engine) / 100 ms (distributed) away from any other step; a mismatch is only "
            "reported if it persists when the behaviour is repeated with 5x timing and then, alone, with 20x timing. Which waiting query gets a freed slot is FIFO in "
            "the replayed behaviours (Go channel order); the general model checked by TLC allows any. The engine's live-query path is used "
            "as the holding point; failures are a non-existing interface, a regexp without match, an unlistable DB directory "
            "(engine), an unresolvable host list (distributed), an unparsable condition and a cancelled context.",
    "ref": "6.3",
}

ACTIONS = ("PreFail", "TryAcquire", "Acquire", "Timeout", "Fail", "Cancel", "Release")
GAP_MS = {"engine": 150, "distributed": 100}


def _gen_cfg(n, nq):
    return {"cfg_text": "SPECIFICATION GenSpec\nCONSTANTS\n  N = %d\n  NQ = %d\n  LeakOnFail = FALSE\n  Depth = %d\n"
                        "CHECK_DEADLOCK FALSE\n" % (n, nq, 4 * nq + 4)}


def _names(b):
    return [(s["act"]["name"], s["act"]["q"], s["act"]["k"]) for s in b["steps"]]


def _replay(vh, runner, behs, seed, db, workers=32, timeout=1500):
    args = ["sem-replay", "-runner", runner, "-seed", str(seed), "-workers", str(workers),
            "-gap-ms", str(GAP_MS[runner]), "-db", db]
    rc, outs, _ = vlib.run_vh(vh, args, stdin_lines=[json.dumps(b, separators=(",", ":")) for b in behs], timeout=timeout)
    summ = [o for o in outs if o.get("summary")]
    vlib.require(summ and summ[0]["behaviours"] == len(behs), "sem-replay (%s) did not process all behaviours" % runner)
    return summ[0], [o for o in outs if o.get("ok") is False]


def main():
    run = vlib.Run("C31", "model_checking")
    thorough = run.tier == "thorough"
    vh = vlib.build_vh("semaphore")
    rnd = random.Random(run.seed)
    with vlib.Scratch("verif-c31-") as sc:
        db = os.path.join(sc, "db")
        os.makedirs(db)
        # ---- M: the design, exhaustively
        for cfg in ("SemaphoreMC.cfg", "SemaphoreMC1.cfg"):
            r = vlib.tlc("semaphore", "SemaphoreMC", cfg, coverage=True, scratch=sc, timeout=600)
            vlib.expect_tlc_ok(r, cfg)
            if r.violation:
                raise vlib.MachineryError("Semaphore design violates %s (spec error, not a code verdict)" % r.violation)
            for a in ACTIONS:
                vlib.require(r.coverage.get(a, (0, 0))[0] > 0, "vacuous: action %s never taken in %s" % (a, cfg))
            run.add_tlc(r, cfg)
        neg = vlib.tlc("semaphore", "SemaphoreMC", "SemaphoreMCNeg.cfg", scratch=sc, timeout=300)
        vlib.require(neg.violation == "NoLeak", "negative model (release skipped on the failure path) does not violate NoLeak: %s %s"
                     % (neg.violation, neg.error))
        run.cov["model_negative_control"] = "LeakOnFail = TRUE: NoLeak violated after %d states" % neg.distinct

        # ---- F: behaviours
        behs = []
        for n, nq in ((1, 2), (1, 3), (2, 3)):
            g = vlib.tlc("semaphore", "SemaphoreGen", _gen_cfg(n, nq), scratch=sc, timeout=600)
            vlib.expect_tlc_ok(g, "SemaphoreGen %d/%d" % (n, nq))
            vlib.require(len(g.traces) >= 40, "generator produced too few behaviours for N=%d NQ=%d" % (n, nq))
            behs += g.traces
            run.add_tlc(g, "SemaphoreGen N=%d NQ=%d (exhaustive)" % (n, nq))
        n_exh = len(behs)
        sims = [(2, 4, 200), (1, 4, 100)] if not thorough else [(2, 4, 15000), (1, 4, 8000), (3, 5, 4000), (2, 5, 3000)]
        for n, nq, num in sims:
            g = vlib.tlc("semaphore", "SemaphoreGen", _gen_cfg(n, nq), workers=1, simulate=num, depth=4 * nq + 8,
                         seed=run.seed, scratch=sc, timeout=900)
            vlib.expect_tlc_ok(g, "SemaphoreGen sim %d/%d" % (n, nq))
            vlib.require(len(g.traces) == num, "simulation produced %d of %d behaviours" % (len(g.traces), num))
            behs += g.traces
            run.add_tlc(g, "SemaphoreGen N=%d NQ=%d (simulated, %d)" % (n, nq, num))
        vlib.require(all(b["complete"] for b in behs), "a generated behaviour does not run until all queries have ended")
        # vacuity of the generated set: the interesting situations occur
        seen = set()
        for b in behs:
            nm = [x[0] for x in _names(b)]
            seen.update(nm)
            if any(s["exp"]["held"] == b["n"] and "waiting" in s["exp"]["pc"] for s in b["steps"]):
                seen.add("full-with-waiter")
            if any(s["act"]["name"] == "Acquire" and s["exp"]["pc"][s["act"]["q"] - 1] == "cancelled" for s in b["steps"]):
                seen.add("cancelled-waiter-acquires")
        for a in ACTIONS + ("full-with-waiter", "cancelled-waiter-acquires"):
            vlib.require(a in seen, "generated behaviours never contain %s" % a)

        for runner in ("engine", "distributed"):
            summ, bad = _replay(vh, runner, behs, run.seed, db)
            run.count(summ["compares"])
            run.cov["traces_validated_against_impl"] += len(behs)
            run.cov.setdefault("replay", {})[runner] = {k: summ[k] for k in ("behaviours", "steps", "compares", "failed", "retried",
                                                                             "fresh_ok", "retry_reasons")}
            # behaviours that passed only on the slow confirming attempt: harmless (stalls of a loaded machine), but if
            # they become the rule the timing plan of the harness is broken
            if summ["retried"] - summ["failed"] > max(10, len(behs) // 4):
                run.note("%s: %d behaviours needed a slower repeated attempt (machine too loaded for %d ms gaps)"
                         % (runner, summ["retried"], GAP_MS[runner]))
            for o in bad:
                run.violation(o.get("desc", {"runner": runner}),
                              {"kind": "sem-replay", "runner": runner, "seed": run.seed + o.get("id", 0), "behaviour": o.get("behaviour"),
                               "step": o.get("step"), "msg": o.get("msg", "")[:2000]})
        for b in behs:
            nm = _names(b)
            if any(x[0] in ("Timeout", "Acquire") for x in nm):
                run.distinct(json.dumps([b["n"], nm]))
        run.sample({"kind": "forward replay behaviour", "n": behs[n_exh // 2]["n"],
                    "steps": ["%s(q%d,%s)" % x for x in _names(behs[n_exh // 2])]})

        # ---- negative control of the binding: corrupted expectations must be rejected on both runners
        cand = [b for b in behs[:n_exh] if any(s["act"]["name"] == "Timeout" for s in b["steps"])]
        rnd.shuffle(cand)
        corrupted = []
        for b in cand[:6]:
            c = json.loads(json.dumps(b))
            # (a) the rejected query is expected to have been served
            for s in c["steps"]:
                for i, st in enumerate(s["exp"]["st"]):
                    if st == "toomany":
                        s["exp"]["st"][i], s["exp"]["pc"][i] = "ok", "done"
            corrupted.append(c)
        for b in cand[6:10]:
            c = json.loads(json.dumps(b))
            # (b) one slot is expected to stay taken at the end (a leak is "expected")
            c["steps"][-1]["exp"]["held"] += 1
            corrupted.append(c)
        vlib.require(len(corrupted) >= 8, "too few behaviours for the negative control")
        for runner in ("engine", "distributed"):
            summ, bad = _replay(vh, runner, corrupted, run.seed, db, workers=len(corrupted))
            vlib.require(len(bad) == len(corrupted), "negative control (%s): %d of %d corrupted behaviours were accepted"
                         % (runner, len(corrupted) - len(bad), len(corrupted)))
        run.cov["negative_control"] = "%d behaviours with a corrupted expectation (rejected query expected served / a slot " \
                                      "expected to stay taken) rejected by both runners" % len(corrupted)

    run.cov["rule"] = ("F: all schedulable behaviours for (N,queries) in (1,2) (1,3) (2,3) + TLC-simulated ones for %s, each on both "
                       "runners; evaluations = stable-step comparisons (len(sem) + state/status of every query); distinct = "
                       "distinct (N, action sequence) in which a query had to wait (the limit was reached)"
                       % ", ".join("(%d,%d)" % (n, q) for n, q, _ in sims))
    run.assumptions += ["acquisition timeouts planned per query with 150 / 100 ms gaps (5x on the confirming second attempt); queries are held at "
                        "the gate, not on a clock",
                        "freed slots go to the longest waiting query (Go channel order) in replayed behaviours",
                        "engine queries are live queries on an empty interface directory; one engine.QueryRunner serves the burst "
                        "as in the API server"]
    return run.finish()


def replay(path):
    d = json.load(open(path))["replay"]
    vh = vlib.build_vh("semaphore")
    with vlib.Scratch("verif-c31-") as sc:
        db = os.path.join(sc, "db")
        os.makedirs(db)
        summ, bad = _replay(vh, d["runner"], [d["behaviour"]], d.get("seed", 1), db, workers=1)
        print(json.dumps(bad or summ, indent=1)[:3000])
        return 1 if bad else 0
