"""C27 - capture reconfiguration converges to the configured interfaces without data loss.

M  ReconfigMC: Manager.Update split as in the code (BeginUpdate / FinalWriteout / StopAll / StartAll)
   with packets on every subset of interfaces between all steps, every sequence of updates over six
   configurations (explicit names, two overlapping patterns, disabled entries), every choice
   function: Converged, NoLoss, NoLossOnStop hold; the negative runs (stop drops what arrived after
   the final write-out; the diff compares only promisc and ring buffer) must fail.
F  ReconfigGen: every configuration history up to a length over the eleven configurations without a
   free choice (parameter changes in every field of CaptureConfig, disable, patterns, explicit name
   over pattern), with one packet on every running capture before each update and - second variant -
   inside the window between the final write-out and the stop, is executed on a fresh
   capture.Manager (scripted sources, host interface list replaced, real goDB write-out).  After every
   step: Manager.Status (running set), the parameters every capture was created with,
   Manager.Config, packets in the database and in memory against the specification.
B  ReconfigTrace: histories containing overlapping patterns with different parameters run on 20 fresh
   managers each; TLC accepts the log iff one fixed choice function (built as a witness from the
   log) explains every manager - determinism, not a particular choice.
"""
import collections
import concurrent.futures
import json
import os
import subprocess
import vlib

MANIFEST = {
    "level": "model_checking",
    "technique": "TLA+ spec Reconfig: TLC exhaustive (update split into its steps, traffic in between, all choice functions) + "
                 "TLC-generated configuration histories replayed on capture.Manager.Update + TLC trace validation of 20 fresh "
                 "managers per history with the choice function as witness",
    "text": "Reconfig.tla models Manager.Update as diff / final write-out / stop / start with packets arriving in between and an arbitrary "
            "but fixed choice among overlapping patterns; TLC checks convergence to the selected interfaces with the chosen parameters "
            "and that no counted packet is lost, exhaustively on a small model. All configuration histories up to a length (3 links, 2 "
            "explicit names, 2 overlapping patterns, changes in every CaptureConfig field, traffic before each update and in the stop "
            "window) run on a real manager with per-step comparison of running set, effective and reported parameters and database "
            "contents; histories with overlapping patterns run on 20 fresh managers and TLC decides whether one fixed choice function "
            "explains all of them.",
    "note": "Interfaces are scripted sources (capture.WithSourceInitFn), the host interface list is replaced through pkg/capture's "
            "hostLinks test variable (go:linkname, no change to /repo), 'parameters a capture runs with' = the configuration the "
            "capture object was created with (what the real AF_PACKET source would be opened with). Regular schedules call Update "
            "with a context that is cancelled afterwards (this ends the manager's per-capture error-logging goroutines and makes the "
            "schedules deterministic); the restart-stress schedules keep them (background context) and probe a scheduling-dependent "
            "race of the manager opportunistically. Explicit names are host interfaces; patterns are never disabled; write-out "
            "timestamps are substituted.",
    "ref": "6.6",
}

FAMILY = "reconfig"


def _tlc_jobs(sc, jobs):
    def one(item):
        name, (module, cfg, kw) = item
        d = os.path.join(sc, "tlc-" + name)
        os.makedirs(d, exist_ok=True)
        return name, vlib.tlc(FAMILY, module, cfg, scratch=d, workers=4, **kw)
    with concurrent.futures.ThreadPoolExecutor(max_workers=4) as ex:
        return dict(ex.map(one, jobs.items()))


def _gen_job(genset, seed):
    return ("ReconfigGen", "ReconfigGen.cfg", {"timeout": 1500, "consts": 'CONSTANT GenSet = "%s"\nCONSTANT Seed = %d' % (genset, seed)})


_TMP = {}   # the harness creates its databases under the check's scratch directory


def _replay(vh, domain, behs, negative=False, workers=8, keep_loggers=False):
    args = ["rc-replay", "-workers", str(workers)] + (["-negative"] if negative else []) + (["-keeploggers"] if keep_loggers else [])
    lines = [json.dumps(domain, separators=(",", ":"))] + [json.dumps(b, separators=(",", ":")) for b in behs]
    rc, outs, err = vlib.run_vh(vh, args, stdin_lines=lines, timeout=3000, env_extra=_TMP)
    summ = [o for o in outs if o.get("summary")]
    vlib.require(summ and summ[0]["behaviours"] == len(behs), "replay did not process all behaviours")
    return outs, summ[0]


def _disabled(cfg, iface):
    return bool(cfg.get(iface, {}).get("disable"))


def classify_trace_mismatch(m):
    """abstract descriptor of a MISMATCH line of ReconfigTrace (TLC's verdict, one class per root cause)"""
    kind = m.get("kind")
    cfg = m.get("cfg") or {}
    obs = m.get("observed") or {}
    model = (m.get("model") or {}).get("running") or {}
    if isinstance(obs, list):
        obs = {}
    if isinstance(model, list):
        model = {}
    if kind == "choice-conflict":
        return {"cls": "nondeterministic-parameters"}
    if kind == "crash":
        note = m.get("note", "")
        if "panicked" in note:
            if any(v.get("disable") for v in cfg.values()):
                return {"cls": "disable-not-honoured", "symptom": "update-panics"}
            return {"cls": "update-panics"}
        return {"cls": "update-fails"}
    if kind == "running-set":
        extra = [i for i in obs if i not in model]
        missing = [i for i in model if i not in obs]
        if extra and not missing and all(_disabled(cfg, i) for i in extra):
            return {"cls": "disable-not-honoured", "symptom": "disabled-iface-runs"}
        return {"cls": "running-set-differs"}
    if kind in ("not-a-candidate", "params"):
        stale = True
        cands = []
        for i, p in obs.items():
            if i in cfg:
                cands = [cfg[i]]
            else:
                cands = [v for k, v in cfg.items() if k.startswith("/")]
            if p in cands or (i in model and model[i] == p):
                continue
            # does it differ from every candidate only in the fields the diff ignores?
            if not any(all(p[f] == c[f] for f in ("promisc", "rb", "disable")) for c in cands):
                stale = False
        return {"cls": "param-change-not-applied" if stale else "params-differ"}
    if kind == "db":
        return {"cls": "db-differs"}
    if kind == "log":
        return {"cls": "memory-differs"}
    return {"cls": "trace-" + str(kind)}


def main():
    run = vlib.Run("C27", "model_checking")
    thorough = run.tier == "thorough"
    vh = vlib.build_vh(FAMILY)
    with vlib.Scratch("verif-c27-") as sc:
        _TMP["TMPDIR"] = sc
        genset = "thorough" if thorough else "quick"
        jobs = {"mc": ("ReconfigMC", "ReconfigMC.cfg", {"coverage": True, "timeout": 1500,
                                                         "consts": "CONSTANT MaxPackets = %d\nCONSTANT MaxUpdates = %d" %
                                                         ((4, 3) if thorough else (2, 3))}),
                "mc-neg-loss": ("ReconfigMC", "ReconfigMCNegLoss.cfg", {"timeout": 900}),
                "mc-neg-equals": ("ReconfigMC", "ReconfigMCNegEquals.cfg", {"timeout": 900}),
                "gen": _gen_job(genset, run.seed)}
        res = _tlc_jobs(sc, jobs)

        # ---- M
        m = res["mc"]
        vlib.expect_tlc_ok(m, "ReconfigMC")
        if m.violation:
            raise vlib.MachineryError("Reconfig design violates %s (spec error, not a code verdict)" % m.violation)
        for a in ("Packets", "BeginUpdate", "FinalWriteout", "StopAll", "StartAll"):
            vlib.require(m.coverage.get(a, (0, 0))[0] > 0, "vacuous: action %s never taken" % a)
        run.add_tlc(m, "ReconfigMC")
        vlib.require(res["mc-neg-loss"].violation in ("NoLoss", "NoLossOnStop"),
                     "negative model run StopFlushes=FALSE was not rejected: %s %s" % (res["mc-neg-loss"].violation, res["mc-neg-loss"].error))
        vlib.require(res["mc-neg-equals"].violation == "Converged",
                     "negative model run FullEquals=FALSE was not rejected: %s %s" % (res["mc-neg-equals"].violation, res["mc-neg-equals"].error))
        run.cov["negative_model_runs"] = "StopFlushes=FALSE violates %s; FullEquals=FALSE violates Converged" % res["mc-neg-loss"].violation

        # ---- F: configuration histories on the real manager
        g = res["gen"]
        vlib.expect_tlc_ok(g, "ReconfigGen/" + genset)
        vlib.require(g.traces and g.infos, "ReconfigGen/%s printed no behaviours" % genset)
        run.add_tlc(g, "ReconfigGen/" + genset)
        domain = g.infos[0]
        nupd = lambda b: sum(1 for s in b if s["act"]["name"] == "Update")
        behs = [b for b in g.traces if nupd(b) <= 4]
        stress = [b for b in g.traces if nupd(b) > 4]
        short = [b for b in behs if nupd(b) == 1]
        vlib.require(len(stress) == 1 and len(short) >= 20, "generator did not print the expected schedule families")
        run.cov["behaviours_per_length"] = dict(collections.Counter(str(nupd(b)) for b in behs))
        outs, summ = _replay(vh, domain, behs)
        run.count(summ["steps"])
        run.cov["traces_validated_against_impl"] += len(behs)
        run.cov["updates_applied"] = summ["updates"]
        run.cov["packets_injected"] = summ["packets"]
        run.cov["managers_started"] = summ["managers"]
        run.cov["behaviours_not_judged_to_the_end"] = summ.get("inconclusive", 0)
        vlib.require(summ["updates"] > 200, "replay exercised too little")
        for b in behs:
            run.distinct(json.dumps([s["act"] for s in b], sort_keys=True))
        run.sample({"kind": "configuration history", "steps": [(s["act"]["name"], s["act"].get("cfg")) for s in behs[len(behs) // 2]][:7]})
        classes = collections.Counter()
        found = []   # (descriptor, replay object); reported at the end, one representative per class first
        for o in outs:
            if o.get("ok") is False:
                classes[o["desc"].get("cls")] += 1
                found.append((o["desc"], {"kind": "rc-replay", "domain": domain, "behaviour": o.get("behaviour"), "step": o.get("step"),
                                          "keep_loggers": False, "msg": o.get("msg", "")[:2500]}))

        # restart stress with the manager's error-logging goroutines kept alive (as in goProbe): a restarted capture must survive
        copies = 24 if thorough else 8
        souts, ssumm = _replay(vh, domain, stress * copies, keep_loggers=True)
        run.count(ssumm["steps"])
        run.cov["traces_validated_against_impl"] += copies
        run.cov["restart_stress"] = {"updates": ssumm["updates"], "failing": ssumm["failed"]}
        for o in souts:
            if o.get("ok") is False:
                if o["desc"].get("cls") in ("running-set-differs", "reported-config-differs", "memory-differs", "db-differs"):
                    # this schedule only toggles promiscuous mode of e0: whatever goes wrong here is the successor capture
                    # disappearing at some point of the observation
                    o["desc"] = dict(o["desc"], symptom=o["desc"]["cls"], cls="restarted-capture-torn-down")
                classes[o["desc"].get("cls")] += 1
                found.append((o["desc"], {"kind": "rc-replay", "domain": domain, "behaviour": o.get("behaviour"), "step": o.get("step"),
                                          "keep_loggers": True, "msg": o.get("msg", "")[:2500],
                                          "note": "timing dependent: re-run the replay several times"}))

        # negative control F: one expected database count changed at the last step of every behaviour
        nouts, nsumm = _replay(vh, domain, short, negative=True)
        rejected = {o["id"] for o in nouts if o.get("ok") is False}
        at_last = [o for o in nouts if o.get("ok") is False and o["desc"].get("cls") == "db-differs"]
        vlib.require(len(rejected) == len(short) and len(at_last) >= len(short) // 3,
                     "negative control: corrupted expected values accepted (%d of %d rejected, %d at the corrupted value)" %
                     (len(rejected), len(short), len(at_last)))
        run.cov["negative_control_F"] = "%d/%d behaviours rejected, %d at the corrupted database count" % (len(rejected), len(short), len(at_last))

        # ---- B: determinism over 20 fresh managers, decided by TLC
        managers = 20
        nhist, maxlen = (80, 3) if thorough else (30, 2)
        p = subprocess.run([vh, "rc-drive", "-seed", str(run.seed), "-managers", str(managers), "-maxlen", str(maxlen),
                            "-histories", str(nhist), "-workers", "8"], input=json.dumps(domain) + "\n",
                           stdout=subprocess.PIPE, stderr=subprocess.PIPE, text=True, timeout=3000, env=dict(os.environ, TMPDIR=sc))
        if p.returncode != 0:
            raise vlib.MachineryError("rc-drive failed: " + p.stderr[-2000:])
        lines = p.stdout.splitlines()
        vlib.require(len(lines) > managers * 10, "rc-drive logged too little")
        t = vlib.tlc(FAMILY, "ReconfigTrace", "ReconfigTrace.cfg", workers=1, files={"trace.ndjson": p.stdout}, scratch=sc, timeout=1500)
        if t.error or t.violation:
            raise vlib.MachineryError("ReconfigTrace did not consume the log: %s %s\n%s" % (t.error, t.violation, t.stdout[-2000:]))
        run.add_tlc(t, "ReconfigTrace")
        run.count(len(lines))
        nmgr = sum(1 for x in lines if '"ev":"Reset"' in x)
        run.cov["traces_validated_against_impl"] += nmgr
        run.cov["trace_events"] = len(lines)
        run.cov["trace_managers"] = nmgr
        run.cov["trace_mismatches"] = len(t.mismatches)
        run.sample({"kind": "trace event", "event": json.loads(lines[1])})
        bad_lines = set()
        for mm in t.mismatches:
            if not isinstance(mm, dict):
                raise vlib.MachineryError("unreadable MISMATCH line: %r" % (mm,))
            desc = dict(classify_trace_mismatch(mm), binding="B")
            classes[desc["cls"]] += 1
            ln = mm.get("line", 0)
            bad_lines.add(ln)
            ev = json.loads(lines[ln - 1]) if 0 < ln <= len(lines) else None
            # the events of this manager up to the rejected one reproduce the case
            hist = [json.loads(x) for x in lines[:ln] if ev and '"hist":%d,"mgr":%d,' % (ev["hist"], ev["mgr"]) in x]
            found.append((desc, {"kind": "rc-trace", "model": {k: v for k, v in mm.items() if k != "witness"}, "witness": str(mm.get("witness"))[:600],
                                 "events": hist, "cmd": "vh rc-drive -seed %d -managers %d -maxlen %d -histories %d" % (run.seed, managers, maxlen, nhist)}))
        # negative control B: corrupt one accepted Update event; TLC must reject exactly there
        skipped_mgrs = set()
        for ln in bad_lines:
            e = json.loads(lines[ln - 1])
            skipped_mgrs.add((e["hist"], e["mgr"]))
        target = None
        for i, x in enumerate(lines):
            e = json.loads(x)
            if e["ev"] == "Update" and (e["hist"], e["mgr"]) not in skipped_mgrs:
                target = i
        vlib.require(target is not None, "negative control: no accepted Update event to corrupt")
        badlog = list(lines)
        e = json.loads(badlog[target])
        k = sorted(e["db"])[0]
        e["db"][k] += 1
        badlog[target] = json.dumps(e, separators=(",", ":"))
        n = vlib.tlc(FAMILY, "ReconfigTrace", "ReconfigTrace.cfg", workers=1, files={"trace.ndjson": "\n".join(badlog) + "\n"},
                     scratch=sc, timeout=1500)
        vlib.require(any(isinstance(mm, dict) and mm.get("line") == target + 1 and mm.get("kind") == "db" for mm in n.mismatches),
                     "negative control: corrupted trace event %d was accepted" % (target + 1))
        run.cov["negative_control_B"] = "corrupted database count at event %d rejected" % (target + 1)
        if classes:
            run.cov["failing_cases_by_class"] = dict(classes)
        # report: the first case of every class (and binding) first, so that each class is among the printed violations
        first, rest, seen = [], [], set()
        for desc, rep in found:
            k = (desc.get("cls"), desc.get("symptom"), desc.get("binding"))
            (rest if k in seen else first).append((desc, rep))
            seen.add(k)
        for desc, rep in first + rest:
            run.violation(desc, rep)

    run.cov["rule"] = ("distinct = distinct configuration histories (with window flag) replayed; F covers all histories of length <= %s over "
                       "11 configurations x {no window traffic, window traffic}%s, restart stress; B: %d histories with overlapping patterns x %d fresh "
                       "managers" % ("3" if thorough else "2", " plus a seeded tenth of length 4" if thorough else "", nhist, managers))
    run.assumptions += [
        "capture sources are scripted; the parameters a capture runs with are the configuration its Capture object was created with",
        "the host's interfaces are e0, e1, x0 (pkg/capture.hostLinks replaced); explicit names are host interfaces; patterns are never disabled",
        "traffic is one TCP conversation; packets are delivered before each update and (second variant) after the final write-out of the "
        "captures to be stopped and before their stop; the harness cannot deliver packets between stop and start",
        "Update is called with a per-call context cancelled afterwards, except in the restart-stress schedules (background context)",
        "an interface entry with disable=true is not selected (config.go: 'explicitly disables capture on this interface')",
    ]
    return run.finish()


def replay(path):
    d = json.load(open(path))["replay"]
    vh = vlib.build_vh(FAMILY)
    if d["kind"] == "rc-replay":
        outs, summ = _replay(vh, d["domain"], [d["behaviour"]], workers=1, keep_loggers=d.get("keep_loggers", False))
        bad = [o for o in outs if o.get("ok") is False]
        for o in bad or outs:
            o.pop("behaviour", None)
            print(json.dumps(o, indent=1)[:3000])
        return 1 if bad else 0
    print("re-run: " + d.get("cmd", "./check C27"))
    print(json.dumps(d.get("model"), indent=1)[:3000])
    return 2
