"""C15 - distributed results do not depend on host reply order; streaming ends with the same result.

M  HostMergeMC: the incremental merge (Arrive = aggregateSingleResult, Finish = finalizeResult) of every
   choice of <= 4 (quick: <= 3) host results from a pool with failed hosts, hosts without rows, overlapping rows and
   equal-instant rows, in every arrival order, with and without streaming, ends with the order-free
   Merged(all) (FinalIsMerged), every partial result is Merged(arrived), failed hosts are reported.  Four
   negative runs switch the step to what the code was seen to do (last arrival wins for the time range,
   stale "no rows" status in streaming, Stats.Add, rows keyed by the time.Time value): each must violate
   FinalIsMerged.
F  HostMergeGen: every behaviour (choice, order, stream) is replayed on the real distributed QueryRunner:
   the harness is the distributed.Querier and feeds the JSON-transported host results in exactly the
   behaviour's order into Run / RunStreaming (recording sender); partial results and the returned Result are
   compared with Merged (rows as multiset, totals, statistics, hits, host statuses, status class,
   interfaces, covered time range).  Every case is also run with the results delivered by concurrent
   goroutines after seeded delays (random interleavings).
"""
import json
import random
import re
import vlib

MANIFEST = {
    "level": "model_checking",
    "technique": "TLA+ spec HostMerge: TLC exhaustive over all choices/arrival orders/streaming + TLC-generated behaviours replayed "
                 "on distributed.QueryRunner.Run/RunStreaming through a scripted Querier, compared with the order-free Merged",
    "text": "HostMerge.tla defines the order-free merge of per-host results (row union with summed counters, sums of totals and "
            "statistics, hits minus merged rows, failed hosts with their errors, interface union, union of the covered time ranges) "
            "and TLC shows that the incremental merge reaches it in every arrival order with and without streaming. Every TLC "
            "behaviour is executed on the real distributed query runner with a scripted querier (exact arrival order, JSON "
            "transport, recording SSE sender, plus concurrent delivery with seeded delays) and the returned Result is compared "
            "field by field with Merged.",
    "note": "Pool of 8 (time-labelled) and 5 (flat) host results, <= 3 hosts per query in the quick tier and <= 4 in the thorough "
            "tier; sorting and row limits are not judged (C14), the two 'no rows' status codes are one class, the Query echo is the "
            "same for all hosts. Partial results of streaming are compared too but only recorded as drift (the statement speaks "
            "about the final result).",
    "ref": "6.4",
}

NEG = {"range": "Summary.First/Last overwritten by the last arrival",
       "sticky": "streaming: status of a partial result without rows is never set back",
       "stats": "workload.Stats.Add adds BlocksProcessed twice and never BytesLoaded",
       "zone": "rows keyed by the time.Time value (equal instants in different zones stay apart)"}


def _gen(sc, cfg, maxhosts):
    txt = open(vlib.SPEC + "/hostmerge/" + cfg).read()
    txt = re.sub(r"MaxHosts = \d+", "MaxHosts = %d" % maxhosts, txt)
    g = vlib.tlc("hostmerge", "HostMergeGen", {"cfg_text": txt}, scratch=sc, timeout=900)
    vlib.expect_tlc_ok(g, "HostMergeGen %s" % cfg)
    vlib.require(len(g.infos) == 1 and isinstance(g.infos[0], dict) and g.infos[0].get("pool"), "generator did not print the pool")
    return g, g.infos[0], g.traces


def _replay(vh, pool, behs, seed, racing):
    lines = [json.dumps(pool, separators=(",", ":"))] + [json.dumps(b, separators=(",", ":")) for b in behs]
    rc, outs, _ = vlib.run_vh(vh, ["hm-replay", "-seed", str(seed), "-racing", str(racing)], stdin_lines=lines,
                              timeout=1800, env_extra={"TZ": "UTC"})
    summ = [o for o in outs if o.get("summary")]
    vlib.require(summ and summ[0]["behaviours"] == len(behs), "hm-replay did not process all behaviours")
    return summ[0], [o for o in outs if o.get("ok") is False]


def _desc(d):
    desc = {"cls": d["cls"]}
    if d.get("fields"):
        desc["fields"] = d["fields"]
    return desc


def main():
    run = vlib.Run("C15", "model_checking")
    thorough = run.tier == "thorough"
    vh = vlib.build_vh("hostmerge")
    rnd = random.Random(run.seed)
    found = {}      # class -> list of (desc, replay)
    with vlib.Scratch("verif-c15-") as sc:
        # ---- M
        for cfg in ("HostMergeMC.cfg", "HostMergeMCFlat.cfg"):
            txt = open(vlib.SPEC + "/hostmerge/" + cfg).read()
            if not thorough and cfg == "HostMergeMC.cfg":
                txt = txt.replace("MaxHosts = 4", "MaxHosts = 3")
            r = vlib.tlc("hostmerge", "HostMergeMC", {"cfg_text": txt}, coverage=True, scratch=sc, timeout=900)
            vlib.expect_tlc_ok(r, cfg)
            if r.violation:
                raise vlib.MachineryError("HostMerge design violates %s (spec error, not a code verdict)" % r.violation)
            for a in ("Arrive", "Finish"):
                vlib.require(r.coverage.get(a, (0, 0))[0] > 0, "vacuous: action %s never taken in %s" % (a, cfg))
            run.add_tlc(r, cfg)
        negs = []
        for sw in sorted(NEG):
            n = vlib.tlc("hostmerge", "HostMergeMC", "HostMergeMC_%s.cfg" % sw, scratch=sc, timeout=600)
            vlib.require(n.violation == "FinalIsMerged",
                         "negative model AsBuilt={%s} does not violate FinalIsMerged (%s %s)" % (sw, n.violation, n.error))
            negs.append(sw)
        run.cov["model_negative_controls"] = {sw: NEG[sw] + ": FinalIsMerged violated" for sw in negs}

        # ---- F
        racing = 3 if thorough else 1
        sets = []
        g, pool, behs = _gen(sc, "HostMergeGen.cfg", 4 if thorough else 3)
        run.add_tlc(g, "HostMergeGen PoolTime")
        sets.append(("time", pool, behs))
        g, pool, behs = _gen(sc, "HostMergeGenFlat.cfg", 4)
        run.add_tlc(g, "HostMergeGen PoolFlat")
        sets.append(("flat", pool, behs))
        vlib.require(len(sets[0][2]) >= 800 and len(sets[1][2]) >= 400, "generator produced too few behaviours")
        drift, racing_conf = {}, {}
        for label, pool, behs in sets:
            # vacuity of the generated set
            feats = set()
            for b in behs:
                hs = [s["act"]["h"] for s in b["steps"] if s["act"]["name"] == "Arrive"]
                errs = [h for h in hs if pool["pool"][h - 1]["err"]]
                emp = [h for h in hs if not pool["pool"][h - 1]["err"] and not pool["pool"][h - 1]["rows"]]
                nrows = sum(len(pool["pool"][h - 1]["rows"]) for h in hs)
                fin = b["steps"][-1]["exp"]
                if errs:
                    feats.add("failed-host")
                if len(errs) == len(hs):
                    feats.add("all-failed")
                if emp and nrows and pool["pool"][hs[0] - 1]["rows"] == []:
                    feats.add("empty-first")
                if nrows > len(fin["rows"]):
                    feats.add("overlap")
                if b["stream"]:
                    feats.add("stream")
                if len(hs) > 1:
                    run.distinct(json.dumps([label, b["stream"], hs]))
            for f in ("failed-host", "all-failed", "empty-first", "overlap", "stream"):
                vlib.require(f in feats, "generated behaviours (%s) never contain: %s" % (label, f))
            summ, bad = _replay(vh, pool, behs, run.seed, racing)
            run.count(summ["compares"])
            run.cov["traces_validated_against_impl"] += summ["runs"] + summ["racing_runs"]
            run.cov.setdefault("replay", {})[label] = {k: summ[k] for k in ("behaviours", "runs", "racing_runs", "compares", "failed", "row_order_compares", "binned_stream_vs_plain_compares", "sort_variants") if k in summ}
            ordered_cls = {d["cls"] for o in bad if o["mode"] == "final" for d in o["diffs"]}
            for o in bad:
                for d in o["diffs"]:
                    if o["mode"] == "partial":
                        drift[d["cls"]] = drift.get(d["cls"], 0) + 1
                        continue
                    if o["mode"] == "racing" and d["cls"] in ordered_cls:
                        # the arrival order of a concurrent delivery is the scheduler's: such a run only confirms a
                        # difference the exact orders already show (its count would vary from run to run)
                        racing_conf[d["cls"]] = racing_conf.get(d["cls"], 0) + 1
                        continue
                    rep = {"kind": "hm-replay", "pool": label, "mode": o["mode"], "stream": o["stream"], "order": o["order"],
                           "seed": run.seed, "behaviour": o["behaviour"], "poolval": pool, "msg": (o.get("msg", "") + ": " + d["msg"])[:1500]}
                    found.setdefault(d["cls"], []).append((_desc(d), rep))
            mid = behs[len(behs) // 2]
            run.sample({"kind": "forward replay behaviour (%s)" % label, "stream": mid["stream"],
                        "arrival order": [pool["pool"][s["act"]["h"] - 1]["name"] for s in mid["steps"] if s["act"]["name"] == "Arrive"],
                        "merged": {k: mid["steps"][-1]["exp"][k] for k in ("hits", "tot", "first", "last", "status")}})
        if racing_conf:
            run.cov["classes_confirmed_by_concurrent_delivery"] = sorted(racing_conf)
        if drift:
            run.cov["partial_result_differences"] = drift
            run.note("streaming partial results differ from Merged(arrived) in classes %s (recorded, not judged: the statement "
                     "is about the final result)" % sorted(drift))

        # ---- negative control of the binding: corrupted expectations must be reported in the corrupted field
        label, pool, behs = sets[0]
        cand = [b for b in behs if len(b["steps"]) >= 3 and any(h["code"] == "error" for h in b["steps"][-1]["exp"]["hs"])]
        rnd.shuffle(cand)
        corrupted, want = [], []
        for i, b in enumerate(cand[:12]):
            c = json.loads(json.dumps(b))
            fin = c["steps"][-1]["exp"]
            if i % 3 == 0:
                fin["tot"][0] += 1
                want.append("totals")
            elif i % 3 == 1:
                fin["hs"] = [h for h in fin["hs"] if h["code"] != "error"]
                want.append("host-statuses")
            else:
                fin["ifaces"] = fin["ifaces"] + ["eth9"]
                want.append("interfaces")
            corrupted.append(c)
        vlib.require(len(corrupted) == 12, "too few behaviours for the negative control")
        summ, bad = _replay(vh, pool, corrupted, run.seed, 0)
        for i, w in enumerate(want):
            cl = set()
            for o in bad:
                if o["id"] == i and o["mode"] == "final":
                    cl.update(o["classes"])
            vlib.require(w in cl, "negative control: corrupted %s of behaviour %d was accepted" % (w, i))
        run.cov["negative_control"] = "12 behaviours with a corrupted expectation (totals + 1 / failed host removed / extra interface): " \
                                      "each reported in the corrupted field"

    # report: every root-cause class gets its share of the first replay files
    order = sorted(found)
    for k in range(max([len(v) for v in found.values()] or [0])):
        for c in order:
            if k < len(found[c]):
                run.violation(*found[c][k])
    run.cov["rule"] = ("F: all choices of 1..%d results from the 8-result pool (time labels) and 1..4 from the 5-result pool (flat), "
                       "every arrival order, Run and RunStreaming, plus %d run(s) each with concurrent delivery; evaluations = "
                       "compared results (partial + final); distinct = (pool, stream, arrival order) with at least two hosts"
                       % (4 if thorough else 3, racing))
    run.assumptions += ["host results pass through JSON like replies of the goProbe API; failed hosts as the API client querier builds them",
                        "harness process runs with TZ=UTC: hosts reporting in UTC share time.Local, hosts in +02:00 get a fixed zone per row",
                        "row limit 1000 (never reached), default sorting; sorting itself is C14"]
    return run.finish()


def replay(path):
    d = json.load(open(path))["replay"]
    vh = vlib.build_vh("hostmerge")
    summ, bad = _replay(vh, d["poolval"], [d["behaviour"]], d.get("seed", 1), 2 if d.get("mode") == "racing" else 0)
    print(json.dumps([{k: o[k] for k in ("mode", "stream", "order", "diffs")} for o in bad] or summ, indent=1)[:4000])
    return 1 if any(o["mode"] != "partial" for o in bad) else 0
